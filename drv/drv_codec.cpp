// C17 driver: displacement (OffsetFormat) and AArch64 immediate codecs against independent decoders.
// Harness code. asmjit is reached through CodeWriterUtils::write_offset/encode_offset32/64 (private header,
// static archive), arm::Utils and the public x86/a64 Assembler API. All decoders below are written from the
// definitions (two's complement / Arm ARM pseudo code) and share no code with asmjit.
#include <asmjit/core.h>
#include <asmjit/x86.h>
#include <asmjit/a64.h>
#include <asmjit/core/codewriter_p.h>
#include <asmjit/core/emitterutils_p.h>
#include <asmjit/arm/armutils.h>
#include "vcommon.h"
#include <algorithm>
#include <functional>
#include <unordered_set>

using namespace asmjit;

typedef __int128 i128;
typedef unsigned __int128 u128;

// ---------------------------------------------------------------------------------------------------------
// common
// ---------------------------------------------------------------------------------------------------------
struct Viol { std::string key, what; uint64_t count; };
static std::vector<Viol> g_viol;
static std::map<std::string, size_t> g_viol_idx;

static void viol(const std::string& key, const std::string& what) {
  auto it = g_viol_idx.find(key);
  if (it != g_viol_idx.end()) { g_viol[it->second].count++; return; }
  g_viol_idx[key] = g_viol.size();
  g_viol.push_back({key, what, 1});
}

static std::string fmtstr(const char* f, ...) __attribute__((format(printf, 1, 2)));
static std::string fmtstr(const char* f, ...) {
  char b[1024];
  va_list ap; va_start(ap, f); vsnprintf(b, sizeof b, f, ap); va_end(ap);
  return b;
}

static std::string viol_json() {
  std::string o = "[";
  for (size_t i = 0; i < g_viol.size(); i++) {
    if (i) o += ",";
    o += "{\"key\":" + jstr(g_viol[i].key) + ",\"what\":" + jstr(g_viol[i].what) + ",\"count\":" + std::to_string(g_viol[i].count) + "}";
  }
  return o + "]";
}

static inline uint64_t mask64(unsigned n) { return n >= 64 ? ~0ull : ((1ull << n) - 1ull); }
static inline uint64_t ror_n(uint64_t v, unsigned r, unsigned size) {
  v &= mask64(size); r %= size;
  if (!r) return v;
  return ((v >> r) | (v << (size - r))) & mask64(size);
}
static inline int64_t sext(uint64_t v, unsigned bits) {
  if (bits >= 64) return int64_t(v);
  uint64_t m = 1ull << (bits - 1);
  v &= mask64(bits);
  return int64_t((v ^ m) - m);
}
static std::string hex64(uint64_t v) { return fmtstr("0x%llx", (unsigned long long)v); }
static std::string dec64(int64_t v) { return fmtstr("%lld", (long long)v); }

// fast generator for fill patterns (quality irrelevant)
struct Xs {
  uint64_t s;
  explicit Xs(uint64_t seed) : s(seed | 1) {}
  inline uint64_t next() { s ^= s << 13; s ^= s >> 7; s ^= s << 17; return s * 0x2545F4914F6CDD1Dull; }
};

// ---------------------------------------------------------------------------------------------------------
// Part A: OffsetFormat codec
// ---------------------------------------------------------------------------------------------------------
static const char* type_name(OffsetType t) {
  switch (t) {
    case OffsetType::kSignedOffset: return "signed";
    case OffsetType::kUnsignedOffset: return "unsigned";
    case OffsetType::kAArch64_ADR: return "a64adr";
    case OffsetType::kAArch64_ADRP: return "a64adrp";
    case OffsetType::kThumb32_ADR: return "t32adr";
    case OffsetType::kThumb32_BLX: return "t32blx";
    case OffsetType::kThumb32_B: return "t32b";
    case OffsetType::kThumb32_BCond: return "t32bcond";
    case OffsetType::kAArch32_ADR: return "a32adr";
    case OffsetType::kAArch32_U23_SignedOffset: return "a32u23";
    case OffsetType::kAArch32_U23_0To3At0_4To7At8: return "a32u23split";
    case OffsetType::kAArch32_1To24At0_0At24: return "a32blx";
    default: return "?";
  }
}

static std::string fmt_desc(const OffsetFormat& f) {
  return fmtstr("%s/s%u/o%u/r%u/b%u/sh%u/d%u", type_name(f.type()), f.value_size(), f.value_offset(), f.region_size(),
                f.imm_bit_count(), f.imm_bit_shift(), f.imm_discard_lsb());
}
static std::string fmt_spec(const OffsetFormat& f) {
  return fmtstr("%u,%u,%u,%u,%u,%u,%u", unsigned(f.type()), f.value_size(), f.value_offset(), f.region_size(),
                f.imm_bit_count(), f.imm_bit_shift(), f.imm_discard_lsb());
}
static std::string fmt_json(const OffsetFormat& f) {
  return fmtstr("{\"desc\":\"%s\",\"spec\":\"%s\",\"type\":%u,\"value_size\":%u,\"value_offset\":%u,\"region_size\":%u,\"bits\":%u,\"shift\":%u,\"discard\":%u}",
                fmt_desc(f).c_str(), fmt_spec(f).c_str(), unsigned(f.type()), f.value_size(), f.value_offset(), f.region_size(),
                f.imm_bit_count(), f.imm_bit_shift(), f.imm_discard_lsb());
}

static OffsetFormat make_format(unsigned type, unsigned vs, unsigned vo, unsigned rs, unsigned bits, unsigned sh, unsigned d) {
  OffsetFormat f;
  f.reset_to_imm_value(OffsetType(type), vs, sh, bits, d);
  f.set_region(rs, vo);
  return f;
}

enum { K_GENERIC = 0, K_ADR = 1, K_ADRP = 2 };
static const int64_t BAND = 4096;

struct FCtx {
  OffsetFormat f;
  std::string desc;
  unsigned vs, vo, rs, n, d, sh;
  bool uns;
  int kind;
  uint64_t wmask, fmask;
  i128 lo, hi;            // representable range in units of 2^d
  uint8_t* buf;           // exactly region_size bytes on the heap (ASan guards both ends)
  uint8_t snap[64];
  uint64_t evals = 0, accepted = 0, refused = 0, nontrivial = 0, direct = 0;
  Xs rng;
  std::vector<std::string> samples;

  FCtx(const OffsetFormat& fmt, uint64_t seed) : f(fmt), rng(seed) {
    desc = fmt_desc(f);
    vs = f.value_size(); vo = f.value_offset(); rs = f.region_size();
    n = f.imm_bit_count(); d = f.imm_discard_lsb(); sh = f.imm_bit_shift();
    uns = f.type() == OffsetType::kUnsignedOffset;
    kind = f.type() == OffsetType::kAArch64_ADR ? K_ADR : f.type() == OffsetType::kAArch64_ADRP ? K_ADRP : K_GENERIC;
    wmask = mask64(vs * 8);
    if (kind == K_GENERIC) fmask = (mask64(n) << sh) & wmask;
    else fmask = (3ull << 29) | (0x7FFFFull << 5);           // immlo[30:29] immhi[23:5]
    if (uns) { lo = 0; hi = (i128(1) << n) - 1; }
    else { lo = -(i128(1) << (n - 1)); hi = (i128(1) << (n - 1)) - 1; }
    buf = (uint8_t*)malloc(rs ? rs : 1);
  }
  ~FCtx() { free(buf); }
  FCtx(const FCtx&) = delete;

  // the definition: value has no discarded low bits set and value / 2^d fits the n-bit (un)signed field
  inline bool representable(int64_t v) const {
    if (d && (uint64_t(v) & mask64(d))) return false;
    i128 q = uns ? i128(u128(uint64_t(v)) >> d) : (i128(v) >> d);
    return q >= lo && q <= hi;
  }
  inline bool near_limit(int64_t v) const {
    i128 q = uns ? i128(u128(uint64_t(v)) >> d) : (i128(v) >> d);
    i128 a = q - lo, b = q - hi;
    if (a < 0) a = -a;
    if (b < 0) b = -b;
    if (a <= BAND || b <= BAND) return true;
    i128 sq = i128(v) >> d;   // band below zero of an unsigned field (carrier is int64_t)
    return uns && sq < 0 && -sq <= BAND;
  }
  // independent decoder: field bits -> displacement
  inline i128 decode(uint64_t word) const {
    if (kind == K_GENERIC) {
      uint64_t raw = (word >> sh) & mask64(n);
      if (uns) return i128(u128(raw) << d);
      return i128(sext(raw, n)) * (i128(1) << d);
    }
    uint64_t immlo = (word >> 29) & 3, immhi = (word >> 5) & 0x7FFFF;
    int64_t imm = sext((immhi << 2) | immlo, 21);
    return kind == K_ADRP ? i128(imm) * 4096 : i128(imm);
  }
  inline i128 as_value(int64_t v) const { return uns ? i128(u128(uint64_t(v))) : i128(v); }

  void report(const char* what, int64_t v, uint64_t pre, uint64_t post, bool ok) {
    viol(std::string("A:") + what + ":" + desc,
         fmtstr("write_offset(format=%s, offset=%lld (0x%llx)) returned %s; word before=0x%llx after=0x%llx field_mask=0x%llx decoded=%s representable=%d",
                desc.c_str(), (long long)v, (unsigned long long)v, ok ? "true" : "false", (unsigned long long)pre, (unsigned long long)post,
                (unsigned long long)fmask, dec64(int64_t(decode(post))).c_str(), int(representable(v))));
  }

  inline void eval(int64_t v, bool sampled) {
    uint64_t r = rng.next();
    if (rs != vs) {
      for (unsigned i = 0; i < rs; i += 8) { uint64_t x = rng.next(); memcpy(buf + i, &x, rs - i < 8 ? rs - i : 8); }
    }
    uint64_t pre = r & wmask & ~fmask;
    memcpy(buf + vo, &pre, vs);
    if (rs != vs) memcpy(snap, buf, rs);
    bool ok = CodeWriterUtils::write_offset(buf, v, f);
    bool exp = representable(v);
    uint64_t post = 0;
    memcpy(&post, buf + vo, vs);
    evals++;
    if (ok) accepted++; else refused++;
    if (v != 0 && (exp || near_limit(v))) nontrivial++;
    if (ok != exp) report(ok ? "accepts-unrepresentable" : "refuses-representable", v, pre, post, ok);
    if ((post ^ pre) & ~fmask) report("bits-outside-field-changed", v, pre, post, ok);
    if (rs != vs) {
      memcpy(buf + vo, snap + vo, vs);
      if (memcmp(buf, snap, rs) != 0) report("bytes-outside-word-changed", v, pre, post, ok);
    }
    if (ok && exp && decode(post) != as_value(v)) report("field-decodes-to-other-value", v, pre, post, ok);
    if (sampled) {
      // the encoders called directly: same verdicts, and the returned mask must lie inside the field
      bool ok2; uint64_t m;
      if (vs == 8) { uint64_t m64 = 0; ok2 = CodeWriterUtils::encode_offset64(&m64, v, f); m = m64; }
      else { uint32_t m32 = 0; ok2 = CodeWriterUtils::encode_offset32(&m32, v, f); m = m32; }
      direct++;
      if (ok2 != exp) report(ok2 ? "encode-accepts-unrepresentable" : "encode-refuses-representable", v, 0, m, ok2);
      else if (ok2 && ((m & ~fmask) || decode(m) != as_value(v))) report("encode-wrong-mask", v, 0, m, ok2);
    }
    if (samples.size() < 3 && ok && v != 0 && (sampled || evals % 65537 == 77)) {
      {
        samples.push_back(fmtstr("{\"format\":\"%s\",\"offset\":%lld,\"word_before\":\"0x%llx\",\"word_after\":\"0x%llx\"}", desc.c_str(), (long long)v,
                                 (unsigned long long)pre, (unsigned long long)post));
      }
    }
  }
};

struct FmtJob { OffsetFormat f; unsigned part, parts; bool exh; uint64_t wide_random; };

static bool fits64(i128 v) { return v >= i128(INT64_MIN) && v <= i128(INT64_MAX); }

static void run_format(const FmtJob& job, uint64_t seed, std::string& stats_json) {
  FCtx c(job.f, seed ^ fnv1a(fmt_desc(job.f).data(), fmt_desc(job.f).size()));
  bool valid = c.n >= 1 && c.n <= c.vs * 8 && (c.kind != K_GENERIC || c.n + c.sh <= c.vs * 8) && c.rs <= 64 && c.vo + c.vs <= c.rs;
  if (!valid) {
    viol("harness:bad-format-spec", "format " + c.desc + " is not well-formed; not judged");
    return;
  }
  i128 elo = 0, ehi = -1; // enumerated region in units
  if (job.exh) {
    elo = c.lo - BAND; ehi = c.hi + BAND;
    i128 total = ehi - elo + 1;
    i128 a = elo + total * job.part / job.parts, b = elo + total * (job.part + 1) / job.parts; // [a,b)
    unsigned d = c.d;
    int64_t step = int64_t(1) << d;
    for (i128 q = a; q < b; q++) {
      i128 v128 = q * step;
      if (!fits64(v128) || !fits64(v128 + step)) continue;
      int64_t v = int64_t(v128);
      c.eval(v, false);
      if (d == 1) c.eval(v + 1, false);
      else if (d == 2) { c.eval(v + 1, false); c.eval(v + 2, false); c.eval(v + 3, false); }
      else if (d >= 3) { c.eval(v + 1, false); c.eval(v + (step >> 1), false); c.eval(v + step - 1, false); }
    }
  }
  if (job.part == 0) {
    std::vector<int64_t> cand;
    auto add = [&](i128 v) { if (fits64(v)) cand.push_back(int64_t(v)); };
    i128 step = i128(1) << c.d;
    for (int side = 0; side < 2; side++) {
      i128 L = side ? c.hi : c.lo;
      for (int k = -64; k <= 64; k++) {
        add((L + k) * step);
        add((L + k) * step + 1);
        add((L + k) * step - 1);
        add((L + k) * step + (step >> 1));
        add(L * step + k);
      }
    }
    for (int k = 0; k < 64; k++) {
      i128 p = i128(1) << k;
      for (int s = -1; s <= 1; s++) { add(p + s); add(-p + s); add((p + s) * step); add((-p + s) * step); }
    }
    add(0); add(1); add(-1); add(i128(INT64_MIN)); add(i128(INT64_MIN) + 1); add(i128(INT64_MAX)); add(i128(INT64_MAX) - 1);
    Rng rng(seed ^ 0xC17C17ull ^ fnv1a(c.desc.data(), c.desc.size()));
    uint64_t N = job.wide_random;
    i128 span = c.hi - c.lo + 1;
    for (uint64_t i = 0; i < N; i++) {
      uint64_t r = rng.next();
      switch (i % 6) {
        case 0: case 1: add(i128(int64_t(r))); break;
        case 2: case 3: { i128 q = c.lo + i128(u128(rng.next()) % u128(span)); add(q * step); break; }
        case 4: { i128 q = c.lo + i128(u128(rng.next()) % u128(span)); add(q * step + i128(r % uint64_t(step))); break; }
        default: { unsigned sh = unsigned(r & 63); int64_t m = int64_t(rng.next() >> sh); add((r & 64) ? i128(m) : -i128(m)); break; }
      }
    }
    std::sort(cand.begin(), cand.end());
    cand.erase(std::unique(cand.begin(), cand.end()), cand.end());
    for (int64_t v : cand) {
      if (job.exh) {
        // already visited by the enumeration (or a misaligned value inside it): keep every judged pair distinct
        i128 q = i128(v) >> c.d;
        if (q >= elo && q <= ehi) continue;
      }
      c.eval(v, true);
    }
  }
  stats_json += fmtstr("%s{\"desc\":\"%s\",\"exhaustive\":%s,\"part\":%u,\"parts\":%u,\"evaluations\":%llu,\"accepted\":%llu,\"refused\":%llu,\"nontrivial\":%llu,\"direct_encode_calls\":%llu,\"samples\":[",
                       stats_json.empty() ? "" : ",", c.desc.c_str(), job.exh ? "true" : "false", job.part, job.parts,
                       (unsigned long long)c.evals, (unsigned long long)c.accepted, (unsigned long long)c.refused, (unsigned long long)c.nontrivial,
                       (unsigned long long)c.direct);
  for (size_t i = 0; i < c.samples.size(); i++) stats_json += (i ? "," : "") + c.samples[i];
  stats_json += "]}";
}

static std::vector<uint64_t> split_nums(const std::string& s, char sep) {
  std::vector<uint64_t> v;
  size_t i = 0;
  while (i <= s.size()) {
    size_t j = s.find(sep, i);
    if (j == std::string::npos) j = s.size();
    if (j > i) v.push_back(strtoull(s.substr(i, j - i).c_str(), nullptr, 0));
    i = j + 1;
  }
  return v;
}

static int mode_fmt(const Args& args) {
  std::string specs = args.str("formats");
  uint64_t seed = args.u64("seed", 1);
  std::string stats;
  size_t i = 0;
  unsigned nf = 0;
  while (i < specs.size()) {
    size_t j = specs.find(';', i);
    if (j == std::string::npos) j = specs.size();
    std::vector<uint64_t> p = split_nums(specs.substr(i, j - i), ',');
    i = j + 1;
    if (p.size() < 11) continue;
    FmtJob job;
    job.f = make_format(unsigned(p[0]), unsigned(p[1]), unsigned(p[2]), unsigned(p[3]), unsigned(p[4]), unsigned(p[5]), unsigned(p[6]));
    job.part = unsigned(p[7]); job.parts = unsigned(p[8]) ? unsigned(p[8]) : 1; job.exh = p[9] != 0; job.wide_random = p[10];
    run_format(job, seed, stats);
    nf++;
  }
  printf("{\"mode\":\"fmt\",\"formats\":[%s],\"violations\":%s}\n", stats.c_str(), viol_json().c_str());
  return 0;
}

// ---------------------------------------------------------------------------------------------------------
// Part A (no verdict): Thumb/A32 split formats - memory safety and documented-layout observation only
// ---------------------------------------------------------------------------------------------------------
struct SplitDef { OffsetType type; unsigned bits, shift, discard; uint32_t doc_mask; const char* name; };

static int mode_split(const Args& args) {
  uint64_t seed = args.u64("seed", 1), count = args.u64("count", 20000);
  // masks follow the layouts documented in core/fixup.h
  const uint32_t T32B = (1u << 26) | 0x03FF0000u | (1u << 13) | (1u << 11) | 0x7FFu;
  SplitDef defs[] = {
    { OffsetType::kThumb32_ADR, 12, 0, 0, (1u << 26) | (1u << 23) | (1u << 21) | 0x7000u | 0xFFu, "t32adr" },
    { OffsetType::kThumb32_BLX, 23, 0, 2, T32B, "t32blx" },
    { OffsetType::kThumb32_B, 24, 0, 1, T32B, "t32b" },
    { OffsetType::kThumb32_BCond, 20, 0, 1, (1u << 26) | 0x003F0000u | (1u << 13) | (1u << 11) | 0x7FFu, "t32bcond" },
    { OffsetType::kAArch32_ADR, 32, 0, 0, (3u << 22) | 0xFFFu, "a32adr" },
    { OffsetType::kAArch32_U23_SignedOffset, 12, 0, 0, (1u << 23) | 0xFFFu, "a32u23/b12" },
    { OffsetType::kAArch32_U23_SignedOffset, 8, 0, 2, (1u << 23) | 0xFFu, "a32u23/b8d2" },
    { OffsetType::kAArch32_U23_0To3At0_4To7At8, 8, 0, 0, (1u << 23) | 0xF0Fu, "a32u23split" },
    { OffsetType::kAArch32_1To24At0_0At24, 25, 0, 1, 0x01FFFFFFu, "a32blx" },
  };
  std::string out;
  uint64_t total = 0;
  for (const SplitDef& sd : defs) {
    OffsetFormat f;
    f.reset_to_imm_value(sd.type, 4, sd.shift, sd.bits, sd.discard);
    Rng rng(seed ^ fnv1a(sd.name, strlen(sd.name)));
    uint8_t* buf = (uint8_t*)malloc(4);
    uint64_t ok_n = 0, fail_n = 0, outside_doc = 0, outside_word = 0;
    uint32_t outside_bits = 0;
    bool sign_mag = f.has_sign_bit();
    for (uint64_t i = 0; i < count; i++) {
      int64_t v;
      unsigned nb = sd.bits > 31 ? 31 : sd.bits;
      if (sd.type == OffsetType::kAArch32_ADR) {
        uint32_t imm8 = uint32_t(rng.below(256)), rot = uint32_t(rng.below(16)) * 2;
        uint32_t m = rot ? ((imm8 >> rot) | (imm8 << (32 - rot))) : imm8;
        v = rng.chance(1, 2) ? int64_t(m) : -int64_t(m);
      }
      else if (sign_mag) {
        int64_t mag = int64_t(rng.below((1ull << nb))) << sd.discard;
        if (i < 4) mag = i < 2 ? 0 : int64_t((1ull << nb) - 1) << sd.discard;
        v = (i & 1) ? -mag : mag;
      }
      else {
        int64_t q = int64_t(rng.below(1ull << nb)) - (int64_t(1) << (nb - 1));
        if (i == 0) q = -(int64_t(1) << (nb - 1));
        if (i == 1) q = (int64_t(1) << (nb - 1)) - 1;
        v = q * (int64_t(1) << sd.discard);
      }
      if (i % 16 == 15) v = int64_t(rng.next());  // arbitrary value: memory safety only
      uint32_t pre = uint32_t(rng.next()) & ~sd.doc_mask;
      memcpy(buf, &pre, 4);
      bool ok = CodeWriterUtils::write_offset(buf, v, f);
      uint32_t post; memcpy(&post, buf, 4);
      if (ok) ok_n++; else fail_n++;
      if ((post ^ pre) & ~sd.doc_mask) { outside_doc++; outside_bits |= (post ^ pre) & ~sd.doc_mask; }
      total++;
    }
    free(buf);
    out += fmtstr("%s{\"format\":\"%s\",\"calls\":%llu,\"accepted\":%llu,\"refused\":%llu,\"bits_changed_outside_documented_layout\":%llu,\"those_bits\":\"0x%x\"}",
                  out.empty() ? "" : ",", sd.name, (unsigned long long)count, (unsigned long long)ok_n, (unsigned long long)fail_n,
                  (unsigned long long)outside_doc, outside_bits);
    (void)outside_word;
  }
  printf("{\"mode\":\"split\",\"calls\":%llu,\"formats\":[%s],\"violations\":%s}\n", (unsigned long long)total, out.c_str(), viol_json().c_str());
  return 0;
}

// ---------------------------------------------------------------------------------------------------------
// Part A: collect the OffsetFormats the back ends construct (fixups of unbound labels + relocation entries)
// ---------------------------------------------------------------------------------------------------------
struct Collected {
  std::string arch, inst, origin;
  OffsetFormat f;
  size_t offset; int64_t rel; uint32_t label_id; bool plain_fixup; bool field_zero; uint64_t preword;
};

struct Collector {
  std::string arch;
  CodeHolder* code;
  BaseAssembler* as;
  std::vector<Label> labels;
  std::vector<Collected> items;
  std::vector<std::string> emit_failed;

  static uint64_t fmask_of(const OffsetFormat& f) {
    if (f.type() == OffsetType::kAArch64_ADR || f.type() == OffsetType::kAArch64_ADRP) return (3ull << 29) | (0x7FFFFull << 5);
    return (mask64(f.imm_bit_count()) << f.imm_bit_shift()) & mask64(f.value_size() * 8);
  }
  uint64_t word_at(uint32_t section_id, size_t off, const OffsetFormat& f) {
    Section* s = code->section_by_id(section_id);
    uint64_t w = 0;
    if (off + f.value_offset() + f.value_size() <= s->buffer_size()) memcpy(&w, s->data() + off + f.value_offset(), f.value_size());
    return w;
  }
  void step(const char* name, const std::function<Error()>& fn) {
    size_t nrel = code->reloc_entries().size();
    std::vector<Fixup*> heads;
    for (Label& l : labels) heads.push_back(code->label_entry_of(l).unresolved_fixups());
    Error e = fn();
    if (e != Error::kOk) { emit_failed.push_back(std::string(name) + ":" + DebugUtils::error_as_string(e)); return; }
    for (size_t i = 0; i < labels.size(); i++) {
      Fixup* h = code->label_entry_of(labels[i]).unresolved_fixups();
      if (h && h != heads[i]) {
        Collected c;
        c.arch = arch; c.inst = name; c.origin = "fixup"; c.f = h->format; c.offset = h->offset; c.rel = int64_t(h->rel);
        c.label_id = labels[i].id(); c.plain_fixup = h->label_or_reloc_id == Globals::kInvalidId;
        c.preword = word_at(h->section_id, h->offset, h->format);
        c.field_zero = (c.preword & fmask_of(h->format)) == 0;
        items.push_back(c);
      }
    }
    Span<RelocEntry*> rel = code->reloc_entries();
    for (size_t i = nrel; i < rel.size(); i++) {
      // the bytes of the relocated value are emitted after the entry is created: read them now
      Collected c;
      c.arch = arch; c.inst = name; c.origin = "reloc"; c.f = rel[i]->format(); c.offset = size_t(rel[i]->source_offset()); c.rel = 0;
      c.label_id = Globals::kInvalidId; c.plain_fixup = false;
      c.preword = word_at(rel[i]->source_section_id(), c.offset, c.f);
      c.field_zero = (c.preword & fmask_of(c.f)) == 0;
      items.push_back(c);
    }
  }
};

static i128 decode_plain(const OffsetFormat& f, uint64_t word) {
  FCtx c(f, 1);
  return c.decode(word);
}

static void e2e_check(Collector& col) {
  // after binding: every same-section fixup must hold exactly label - site + rel
  for (const Collected& c : col.items) {
    if (c.origin != "fixup" || !c.plain_fixup) continue;
    const LabelEntry& le = col.code->label_entry_of(c.label_id);
    if (!le.is_bound()) continue;
    uint64_t w = col.word_at(0, c.offset, c.f);
    i128 expect = i128(int64_t(le.offset())) - i128(int64_t(c.offset)) + c.rel;
    i128 got = decode_plain(c.f, w);
    if (got != expect || ((w ^ c.preword) & ~Collector::fmask_of(c.f)))
      viol("A:e2e:" + c.arch + ":" + c.inst, fmtstr("%s %s: fixup at %zu (format %s) patched word 0x%llx (before 0x%llx) decodes to %lld, label-site+rel = %lld",
           c.arch.c_str(), c.inst.c_str(), c.offset, fmt_desc(c.f).c_str(), (unsigned long long)w, (unsigned long long)c.preword, (long long)got, (long long)expect));
  }
}

static void collect_x86(Arch arch, const char* name, std::vector<Collected>& all, std::vector<std::string>& failed) {
  using namespace x86;
  CodeHolder code;
  code.init(Environment(arch));
  x86::Assembler a(&code);
  Collector col; col.arch = name; col.code = &code; col.as = &a;
  bool is64 = arch == Arch::kX64;
  Label Lbase = a.new_label(), Lfar = a.new_label(), Lnear = a.new_label(), Lfar2 = a.new_label();
  col.labels = { Lfar, Lnear, Lfar2 };
  a.bind(Lbase);
  Gp zax = is64 ? Gp(rax) : Gp(eax), zcx = is64 ? Gp(rcx) : Gp(ecx);
  col.step("jmp", [&] { return a.jmp(Lfar); });
  col.step("jz", [&] { return a.jz(Lfar); });
  col.step("jnle", [&] { return a.jnle(Lfar); });
  col.step("call", [&] { return a.call(Lfar); });
  col.step("xbegin", [&] { return a.xbegin(Lfar); });
  col.step("lea [label]", [&] { return a.lea(zax, x86::ptr(Lfar)); });
  col.step("mov r,[label+4]", [&] { return a.mov(eax, x86::dword_ptr(Lfar, 4)); });
  col.step("cmp [label],imm32", [&] { return a.cmp(x86::dword_ptr(Lfar), 0x12345678); });
  col.step("mov byte [label],imm8", [&] { return a.mov(x86::byte_ptr(Lfar2), 1); });
  col.step("movaps x,[label]", [&] { return a.movaps(xmm0, x86::ptr(Lfar2)); });
  col.step("vaddps z,z,[label]", [&] { return a.vaddps(zmm1, zmm2, x86::ptr(Lfar2)); });
  col.step("jmp [label]", [&] { return a.jmp(x86::ptr(Lfar2)); });
  col.step("embed_label", [&] { return a.embed_label(Lfar); });
  for (size_t sz : { size_t(1), size_t(2), size_t(4), size_t(8) }) {
    std::string n1 = "embed_label/" + std::to_string(sz), n2 = "embed_label_delta/" + std::to_string(sz);
    col.step(n1.c_str(), [&] { return a.embed_label(Lfar, sz); });
    col.step(n2.c_str(), [&] { return a.embed_label_delta(Lfar, Lbase, sz); });
  }
  col.step("jmp imm", [&] { return a.jmp(Imm(0x123456789ull)); });
  col.step("call imm", [&] { return a.call(Imm(0x123456789ull)); });
  col.step("jz imm", [&] { return a.jz(Imm(0x1234567ull)); });
  col.step("short jz imm", [&] { return a.short_().jz(Imm(0x1234567ull)); });
  col.step("jecxz imm", [&] { return a.jecxz(zcx, Imm(0x1234567ull)); });
  col.step("loop imm", [&] { return a.loop(zcx, Imm(0x1234567ull)); });
  col.step("mov r,[rel imm]", [&] { Mem m = x86::ptr(uint64_t(0x12345678)); m.set_addr_rel(); return a.mov(eax, m); });
  // short forms right before their label
  col.step("short jmp", [&] { return a.short_().jmp(Lnear); });
  col.step("short jz", [&] { return a.short_().jz(Lnear); });
  col.step("jecxz", [&] { return a.jecxz(zcx, Lnear); });
  col.step("loop", [&] { return a.loop(zcx, Lnear); });
  col.step("loope", [&] { return a.loope(zcx, Lnear); });
  a.nop();
  Error e1 = a.bind(Lnear);
  a.nop();
  Error e2 = a.bind(Lfar);
  Error e3 = a.bind(Lfar2);
  if (e1 != Error::kOk || e2 != Error::kOk || e3 != Error::kOk)
    viol(std::string("A:e2e:") + name + ":bind", fmtstr("binding the labels of the %s label program failed: %s/%s/%s", name,
         DebugUtils::error_as_string(e1), DebugUtils::error_as_string(e2), DebugUtils::error_as_string(e3)));
  e2e_check(col);
  for (auto& c : col.items) all.push_back(c);
  for (auto& s : col.emit_failed) failed.push_back(std::string(name) + ":" + s);
}

static void collect_a64(std::vector<Collected>& all, std::vector<std::string>& failed) {
  using namespace a64;
  CodeHolder code;
  code.init(Environment(Arch::kAArch64));
  a64::Assembler a(&code);
  Collector col; col.arch = "aarch64"; col.code = &code; col.as = &a;
  Label Lbase = a.new_label(), Lpage = a.new_label(), L = a.new_label();
  col.labels = { Lpage, L };
  a.bind(Lbase);
  col.step("adrp", [&] { return a.adrp(x0, Lpage); });              // at offset 0, label bound at 4096
  col.step("b", [&] { return a.b(L); });
  col.step("bl", [&] { return a.bl(L); });
  col.step("b.eq", [&] { return a.b_eq(L); });
  col.step("b.le", [&] { return a.b(CondCode::kLE, L); });
  col.step("cbz x", [&] { return a.cbz(x1, L); });
  col.step("cbnz w", [&] { return a.cbnz(w2, L); });
  col.step("tbz x,#33", [&] { return a.tbz(x3, 33, L); });
  col.step("tbnz w,#3", [&] { return a.tbnz(w4, 3, L); });
  col.step("adr", [&] { return a.adr(x5, L); });
  col.step("ldr x,label", [&] { return a.ldr(x6, a64::ptr(L)); });
  col.step("ldr w,label", [&] { return a.ldr(w7, a64::ptr(L)); });
  col.step("ldrsw x,label", [&] { return a.ldrsw(x8, a64::ptr(L)); });
  col.step("ldr s,label", [&] { return a.ldr(s1, a64::ptr(L)); });
  col.step("ldr d,label", [&] { return a.ldr(d2, a64::ptr(L)); });
  col.step("ldr q,label", [&] { return a.ldr(q3, a64::ptr(L)); });
  col.step("prfm label", [&] { return a.prfm(Imm(0), a64::ptr(L)); });
  col.step("embed_label", [&] { return a.embed_label(L); });
  for (size_t sz : { size_t(1), size_t(2), size_t(4), size_t(8) }) {
    std::string n1 = "embed_label/" + std::to_string(sz), n2 = "embed_label_delta/" + std::to_string(sz);
    col.step(n1.c_str(), [&] { return a.embed_label(L, sz); });
    col.step(n2.c_str(), [&] { return a.embed_label_delta(L, Lbase, sz); });
  }
  a.align(AlignMode::kCode, 4);
  col.step("b imm", [&] { return a.b(Imm(0x12345678)); });
  col.step("bl imm", [&] { return a.bl(Imm(0x12345678)); });
  col.step("b.eq imm", [&] { return a.b_eq(Imm(0x12345678)); });
  col.step("cbz imm", [&] { return a.cbz(x1, Imm(0x12345678)); });
  col.step("tbz imm", [&] { return a.tbz(x1, 1, Imm(0x12345678)); });
  col.step("adr imm", [&] { return a.adr(x1, Imm(0x12345678)); });
  col.step("adrp imm", [&] { return a.adrp(x1, Imm(0x12345000)); });
  // pad to 4096 so that the ADRP page delta is exact
  size_t off = a.offset();
  Error e0 = Error::kOk;
  if (off < 4096) { std::vector<uint8_t> z(4096 - off, 0); e0 = a.embed(z.data(), z.size()); }
  Error e1 = a.bind(Lpage);
  Error e2 = a.bind(L);
  if (e0 != Error::kOk || e1 != Error::kOk || e2 != Error::kOk || a.offset() != 4096)
    viol("A:e2e:aarch64:bind", fmtstr("binding the labels of the aarch64 label program failed: %s/%s/%s at offset %zu",
         DebugUtils::error_as_string(e0), DebugUtils::error_as_string(e1), DebugUtils::error_as_string(e2), a.offset()));
  e2e_check(col);
  for (auto& c : col.items) all.push_back(c);
  for (auto& s : col.emit_failed) failed.push_back("aarch64:" + s);
}

static int mode_collect(const Args& args) {
  uint64_t seed = args.u64("seed", 1);
  std::vector<Collected> all;
  std::vector<std::string> failed;
  collect_x86(Arch::kX86, "x86-32", all, failed);
  collect_x86(Arch::kX64, "x86-64", all, failed);
  collect_a64(all, failed);

  std::map<std::string, std::pair<OffsetFormat, std::set<std::string>>> uniq;
  std::string items;
  uint64_t nonzero_field = 0;
  for (const Collected& c : all) {
    std::string d = fmt_desc(c.f);
    uniq[d].first = c.f;
    uniq[d].second.insert(c.arch + ":" + c.inst + ":" + c.origin);
    if (!c.field_zero) nonzero_field++;
    items += fmtstr("%s{\"arch\":\"%s\",\"inst\":%s,\"origin\":\"%s\",\"format\":\"%s\",\"offset\":%zu,\"rel\":%lld,\"field_zero_before_patch\":%s,\"word\":\"0x%llx\"}",
                    items.empty() ? "" : ",", c.arch.c_str(), jstr(c.inst).c_str(), c.origin.c_str(), d.c_str(), c.offset, (long long)c.rel,
                    c.field_zero ? "true" : "false", (unsigned long long)c.preword);
  }
  std::string fmts;
  for (auto& kv : uniq) {
    std::string users;
    for (auto& u : kv.second.second) users += (users.empty() ? "" : ",") + jstr(u);
    std::string j = fmt_json(kv.second.first);
    j.pop_back();
    fmts += (fmts.empty() ? "" : ",") + j + ",\"used_by\":[" + users + "]}";
  }
  // second-oracle samples: real AArch64 instruction words patched by write_offset, to be disassembled by llvm-mc
  std::string xs;
  std::set<std::string> done;
  Rng rng(seed);
  for (const Collected& c : all) {
    if (c.arch != "aarch64" || c.origin != "fixup" || c.f.value_size() != 4 || c.f.imm_bit_count() > 26) continue;
    if (c.inst.find("embed") != std::string::npos) continue;
    if (!done.insert(c.inst).second) continue;
    FCtx fc(c.f, 1);
    std::vector<int64_t> vals;
    int64_t step = int64_t(1) << fc.d;
    for (int k = 0; k < 4; k++) { vals.push_back(int64_t(fc.lo + k) * step); vals.push_back(int64_t(fc.hi - k) * step); }
    vals.push_back(0); vals.push_back(step); vals.push_back(-step);
    for (int k = 0; k < 40; k++) vals.push_back(int64_t(fc.lo + i128(rng.below(uint64_t(fc.hi - fc.lo + 1)))) * step);
    for (int64_t v : vals) {
      uint32_t w = uint32_t(c.preword);
      if (!CodeWriterUtils::write_offset(&w, v, c.f)) continue;
      xs += fmtstr("%s{\"inst\":%s,\"format\":\"%s\",\"value\":%lld,\"word\":%u}", xs.empty() ? "" : ",", jstr(c.inst).c_str(), fmt_desc(c.f).c_str(), (long long)v, w);
    }
  }
  std::string fl;
  for (auto& s : failed) fl += (fl.empty() ? "" : ",") + jstr(s);
  printf("{\"mode\":\"collect\",\"formats\":[%s],\"sites\":[%s],\"sites_with_nonzero_field_before_patch\":%llu,\"emit_failed\":[%s],\"xsamples\":[%s],\"violations\":%s}\n",
         fmts.c_str(), items.c_str(), (unsigned long long)nonzero_field, fl.c_str(), xs.c_str(), viol_json().c_str());
  return 0;
}

// ---------------------------------------------------------------------------------------------------------
// Part B: AArch64 immediates through a64::Assembler
// ---------------------------------------------------------------------------------------------------------
struct Emu {
  CodeHolder code;
  a64::Assembler a;
  Error last = Error::kOk;
  Emu() { code.init(Environment(Arch::kAArch64)); code.attach(&a); }
  // returns number of 32-bit words emitted, -1 when the assembler refused
  template<typename... Ops>
  int emit(uint32_t* out, InstId id, Ops&&... ops) {
    a.set_offset(0);
    last = a.emit(id, std::forward<Ops>(ops)...);
    if (last != Error::kOk) return -1;
    size_t n = a.offset();
    if (n > 16 || (n & 3)) return -2;
    memcpy(out, a.buffer_data(), n);
    return int(n / 4);
  }
};

struct XSamples {
  std::string js; unsigned n = 0, cap;
  explicit XSamples(unsigned c) : cap(c) {}
  void add(const std::string& text, int nwords, const uint32_t* w) {
    if (n >= cap) return;
    js += fmtstr("%s{\"asm\":%s,\"word\":%s}", n ? "," : "", jstr(text).c_str(), nwords == 1 ? std::to_string(w[0]).c_str() : "null");
    n++;
  }
};

// Arm ARM shared/functions/common: DecodeBitMasks(immN, imms, immr, immediate, M)
static bool decode_bit_masks(unsigned N, unsigned imms, unsigned immr, bool immediate, unsigned M, uint64_t* wmask, uint64_t* tmask) {
  unsigned x = ((N & 1) << 6) | (~imms & 0x3F);
  if (!x) return false;
  int len = 31 - __builtin_clz(x);
  if (len < 1) return false;
  if (M < (1u << len)) return false;
  unsigned levels = (1u << len) - 1;
  if (immediate && (imms & levels) == levels) return false;
  unsigned S = imms & levels, R = immr & levels;
  unsigned esize = 1u << len;
  unsigned d = (S - R) & levels;
  uint64_t welem = mask64(S + 1), telem = mask64(d + 1);
  uint64_t wr = ror_n(welem, R, esize);
  uint64_t wm = 0, tm = 0;
  for (unsigned i = 0; i < M; i += esize) { wm |= wr << i; tm |= telem << i; }
  if (wmask) *wmask = wm & mask64(M);
  if (tmask) *tmask = tm & mask64(M);
  return true;
}

static std::vector<uint64_t> logical_set(unsigned M) {
  std::set<uint64_t> s;
  for (unsigned N = 0; N < 2; N++)
    for (unsigned r = 0; r < 64; r++)
      for (unsigned im = 0; im < 64; im++) {
        uint64_t w;
        if (decode_bit_masks(N, im, r, true, M, &w, nullptr)) s.insert(w);
      }
  return std::vector<uint64_t>(s.begin(), s.end());
}

// evaluator for what `mov rd, #imm` may emit: MOVZ/MOVN/MOVK (wide immediate) and ORR (immediate) from ZR
static bool eval_mov_sequence(const uint32_t* w, int n, unsigned rd, uint64_t* result, std::string* why) {
  uint64_t reg = 0; bool defined = false;
  for (int i = 0; i < n; i++) {
    uint32_t op = w[i];
    unsigned sf = op >> 31, opc = (op >> 29) & 3;
    if ((op & 31) != rd) { *why = fmtstr("word %d writes register %u instead of %u", i, op & 31, rd); return false; }
    if (((op >> 23) & 0x3F) == 0x25) {            // move wide
      unsigned hw = (op >> 21) & 3; uint64_t imm16 = (op >> 5) & 0xFFFF;
      if (!sf && hw > 1) { *why = "32-bit move wide with hw>1 is UNDEFINED"; return false; }
      unsigned pos = hw * 16;
      if (opc == 2) { reg = imm16 << pos; defined = true; }
      else if (opc == 0) { reg = ~(imm16 << pos); defined = true; }
      else if (opc == 3) { if (!defined) { *why = "MOVK on an undefined register"; return false; } reg = (reg & ~(0xFFFFull << pos)) | (imm16 << pos); }
      else { *why = "move wide opc=01 is UNDEFINED"; return false; }
      if (!sf) reg &= 0xFFFFFFFFull;
    }
    else if (((op >> 23) & 0x3F) == 0x24 && opc == 1 && ((op >> 5) & 31) == 31) {   // ORR rd, zr, #imm
      uint64_t wm;
      if (!decode_bit_masks((op >> 22) & 1, (op >> 10) & 0x3F, (op >> 16) & 0x3F, true, sf ? 64 : 32, &wm, nullptr)) { *why = "ORR with an UNDEFINED bitmask"; return false; }
      reg = wm; defined = true;
    }
    else { *why = fmtstr("word %d (0x%08x) is not MOVZ/MOVN/MOVK/ORR-from-zr", i, op); return false; }
  }
  if (!defined) { *why = "nothing emitted"; return false; }
  *result = reg;
  return true;
}

static void check_mov(Emu& e, unsigned W, uint64_t v, uint64_t& evals, const char* cls) {
  uint32_t w[4]; std::string why;
  a64::Gp rd = W == 64 ? a64::Gp(a64::x7) : a64::Gp(a64::w7);
  int n = e.emit(w, a64::Inst::kIdMov, rd, Imm(v));
  evals++;
  uint64_t want = v & mask64(W), got = 0;
  if (n < 1) {
    viol(fmtstr("B:mov%u:%s:refused", W, cls), fmtstr("mov %c7, #0x%llx refused (%s); every %u-bit constant has a MOVZ/MOVN/MOVK sequence",
         W == 64 ? 'x' : 'w', (unsigned long long)v, DebugUtils::error_as_string(e.last), W));
    return;
  }
  if (!eval_mov_sequence(w, n, 7, &got, &why))
    viol(fmtstr("B:mov%u:%s:bad-sequence", W, cls), fmtstr("mov %c7, #0x%llx emitted %d words [%08x %08x %08x %08x]: %s", W == 64 ? 'x' : 'w',
         (unsigned long long)v, n, w[0], n > 1 ? w[1] : 0, n > 2 ? w[2] : 0, n > 3 ? w[3] : 0, why.c_str()));
  else if (got != want)
    viol(fmtstr("B:mov%u:%s:wrong-value", W, cls), fmtstr("mov %c7, #0x%llx emitted %d words [%08x %08x %08x %08x] which evaluate to 0x%llx", W == 64 ? 'x' : 'w',
         (unsigned long long)v, n, w[0], n > 1 ? w[1] : 0, n > 2 ? w[2] : 0, n > 3 ? w[3] : 0, (unsigned long long)got));
}

// mov sp|wsp, #imm exists only as ORR sp, zr, #bitmask (MOVZ / MOVN / MOVK with Rd = 31 write the zero register);
// mov xzr|wzr, #imm must never be the ORR form (Rd = 31 is SP there)
static void check_mov_sp_zr(Emu& e, unsigned W, uint64_t v, bool is_bitmask, uint64_t& evals) {
  uint32_t w[4]; std::string why;
  char rc = W == 64 ? 'x' : 'w';
  a64::Gp sp = W == 64 ? a64::Gp(a64::sp) : a64::Gp(a64::wsp), zr = W == 64 ? a64::Gp(a64::xzr) : a64::Gp(a64::wzr);
  int n = e.emit(w, a64::Inst::kIdMov, sp, Imm(v));
  evals++;
  if ((n >= 1) != is_bitmask) {
    viol(fmtstr("B:mov%u:sp:%s", W, n >= 1 ? "accepts-unencodable" : "refuses-encodable"),
         fmtstr("mov %csp, #0x%llx %s (%s, %d words, first 0x%08x); the value is %sa bitmask immediate and only ORR (immediate) can write SP", rc, (unsigned long long)v,
                n >= 1 ? "accepted" : "refused", DebugUtils::error_as_string(e.last), n, n >= 1 ? w[0] : 0, is_bitmask ? "" : "not "));
  }
  else if (n >= 1) {
    uint64_t wm = 0;
    bool orr = n == 1 && ((w[0] >> 23) & 0x3F) == 0x24 && ((w[0] >> 29) & 3) == 1 && (w[0] >> 31) == (W == 64) && (w[0] & 31) == 31 && ((w[0] >> 5) & 31) == 31;
    if (!orr || !decode_bit_masks((w[0] >> 22) & 1, (w[0] >> 10) & 0x3F, (w[0] >> 16) & 0x3F, true, W, &wm, nullptr) || wm != (v & mask64(W)))
      viol(fmtstr("B:mov%u:sp:wrong-encoding", W), fmtstr("mov %csp, #0x%llx emitted %d words, first 0x%08x: not ORR %csp, %czr, #0x%llx", rc, (unsigned long long)v, n, w[0], rc, rc, (unsigned long long)(v & mask64(W))));
  }
  n = e.emit(w, a64::Inst::kIdMov, zr, Imm(v));
  evals++;
  if (n >= 1) {
    uint64_t got = 0;
    for (int i = 0; i < n; i++)
      if (((w[i] >> 23) & 0x3F) != 0x25) {
        viol(fmtstr("B:mov%u:zr:not-move-wide", W), fmtstr("mov %czr, #0x%llx emitted word %d = 0x%08x which is not MOVZ/MOVN/MOVK (ORR with Rd=31 would write SP)", rc, (unsigned long long)v, i, w[i]));
        return;
      }
    if (!eval_mov_sequence(w, n, 31, &got, &why) || got != (v & mask64(W)))
      viol(fmtstr("B:mov%u:zr:bad-sequence", W), fmtstr("mov %czr, #0x%llx emitted %d words [%08x ...]: %s (evaluates to 0x%llx)", rc, (unsigned long long)v, n, w[0], why.c_str(), (unsigned long long)got));
  }
}

static int mode_logical(const Args& args) {
  uint64_t seed = args.u64("seed", 1), nrand = args.u64("random", 20000);
  unsigned shard = unsigned(args.u64("shard", 0)), shards = unsigned(args.u64("shards", 1));
  Emu e;
  XSamples xs(unsigned(args.u64("xsamples", 300)));
  Rng rng(seed);
  uint64_t evals = 0, nontrivial = 0, accepted = 0, refused = 0, values = 0;
  std::string sizes;
  struct Kind { const char* name; InstId id; int form; bool negate; };   // form 0: rd,rn,imm  1: rn,imm
  const Kind kinds[] = {
    { "and", a64::Inst::kIdAnd, 0, false }, { "ands", a64::Inst::kIdAnds, 0, false }, { "orr", a64::Inst::kIdOrr, 0, false },
    { "eor", a64::Inst::kIdEor, 0, false }, { "tst", a64::Inst::kIdTst, 1, false }, { "bic", a64::Inst::kIdBic, 0, true },
    { "bics", a64::Inst::kIdBics, 0, true }, { "orn", a64::Inst::kIdOrn, 0, true }, { "eon", a64::Inst::kIdEon, 0, true },
  };
  const unsigned NKINDS = sizeof(kinds) / sizeof(kinds[0]);
  // the instruction the pseudo forms must turn into: AND / ANDS / ORR / EOR (immediate) = opc 00 / 11 / 01 / 10
  const unsigned want_opc[] = { 0, 3, 1, 2, 3, 0, 3, 1, 2 };
  for (unsigned W : { 64u, 32u }) {
    std::vector<uint64_t> valid = logical_set(W);
    sizes += fmtstr("%s\"valid_%u\":%zu", sizes.empty() ? "" : ",", W, valid.size());
    if (valid.size() != (W == 64 ? 5334u : 1302u)) {
      viol("harness:logical-set-size", fmtstr("own DecodeBitMasks enumerates %zu %u-bit immediates, expected %u", valid.size(), W, W == 64 ? 5334u : 1302u));
      continue;
    }
    std::unordered_set<uint64_t> member(valid.begin(), valid.end());
    std::vector<uint64_t> vals(valid);
    for (uint64_t v : valid) for (unsigned b = 0; b < W; b++) vals.push_back(v ^ (1ull << b));
    vals.push_back(0); vals.push_back(mask64(W));
    for (uint64_t i = 0; i < nrand; i++) {
      uint64_t r = rng.next() & mask64(W);
      if (i & 1) { unsigned a = unsigned(rng.below(W)), b = unsigned(rng.below(W)); r = ror_n(mask64(a + 1), b, W); }  // one rotated run
      vals.push_back(r);
    }
    std::sort(vals.begin(), vals.end());
    vals.erase(std::unique(vals.begin(), vals.end()), vals.end());
    a64::Gp rd = W == 64 ? a64::Gp(a64::x3) : a64::Gp(a64::w3), rn = W == 64 ? a64::Gp(a64::x5) : a64::Gp(a64::w5);
    uint32_t ref[16];
    for (unsigned k = 0; k < NKINDS; k++) {
      uint32_t w[4];
      int n = kinds[k].form == 0 ? e.emit(w, kinds[k].id, rd, rn, Imm(kinds[k].negate ? (~1ull & mask64(W)) : 1ull)) : e.emit(w, kinds[k].id, rn, Imm(1));
      ref[k] = n == 1 ? (w[0] & ~0x007FFC00u) : 0;
      if (n != 1) viol(fmtstr("harness:logical-ref:%s%u", kinds[k].name, W), "reference emission failed");
      else if (((w[0] >> 29) & 3) != want_opc[k] || ((w[0] >> 23) & 0x3F) != 0x24 || (w[0] >> 31) != (W == 64))
        viol(fmtstr("B:logical%u:%s:wrong-instruction", W, kinds[k].name), fmtstr("%s %u-bit, #imm emitted 0x%08x which is not the %s (immediate) instruction of that width", kinds[k].name, W, w[0],
             want_opc[k] == 0 ? "AND" : want_opc[k] == 1 ? "ORR" : want_opc[k] == 2 ? "EOR" : "ANDS"));
    }
    for (size_t vi = 0; vi < vals.size(); vi++) {
      if (vi % shards != shard) continue;
      uint64_t v = vals[vi];
      bool exp = member.count(v) != 0;
      values++;
      // utilities
      arm::Utils::LogicalImm li;
      bool ok_is = arm::Utils::is_logical_imm(v, W), ok_enc = arm::Utils::encode_logical_imm(v, W, Out(li));
      evals += 2;
      if (v) nontrivial += 2;
      if (ok_is != exp) viol(fmtstr("B:logical%u:is_logical_imm:%s", W, ok_is ? "accepts-unencodable" : "refuses-encodable"),
                             fmtstr("is_logical_imm(0x%llx, %u) = %d but the value is %sin the set decoded from all (N,immr,imms)", (unsigned long long)v, W, ok_is, exp ? "" : "not "));
      if (ok_enc != exp) viol(fmtstr("B:logical%u:encode_logical_imm:%s", W, ok_enc ? "accepts-unencodable" : "refuses-encodable"),
                              fmtstr("encode_logical_imm(0x%llx, %u) = %d, expected %d", (unsigned long long)v, W, ok_enc, exp));
      else if (ok_enc) {
        uint64_t back = 0;
        if (li.n > 1 || li.s > 63 || li.r > 63 || !decode_bit_masks(li.n, li.s, li.r, true, W, &back, nullptr) || back != v)
          viol(fmtstr("B:logical%u:encode_logical_imm:wrong-fields", W), fmtstr("encode_logical_imm(0x%llx, %u) -> N=%u immr=%u imms=%u which decodes to 0x%llx",
               (unsigned long long)v, W, li.n, li.r, li.s, (unsigned long long)back));
      }
      for (unsigned k = 0; k < NKINDS; k++) {
        const Kind& K = kinds[k];
        uint64_t eff = K.negate ? (~v & mask64(W)) : v;     // the mask the instruction really applies
        bool kexp = member.count(eff) != 0;
        uint32_t w[4];
        int n = K.form == 0 ? e.emit(w, K.id, rd, rn, Imm(v)) : e.emit(w, K.id, rn, Imm(v));
        evals++;
        if (v) nontrivial++;
        if (n == 1) accepted++; else refused++;
        std::string key = fmtstr("B:logical%u:%s:", W, K.name);
        if ((n == 1) != kexp) {
          viol(key + (n == 1 ? "accepts-unencodable" : "refuses-encodable"),
               fmtstr("%s %u-bit, #0x%llx: assembler %s (%s) but the mask 0x%llx is %sa valid bitmask immediate", K.name, W, (unsigned long long)v,
                      n == 1 ? "accepted" : "refused", DebugUtils::error_as_string(e.last), (unsigned long long)eff, kexp ? "" : "not "));
        }
        else if (n == 1) {
          uint64_t back = 0;
          bool dec = decode_bit_masks((w[0] >> 22) & 1, (w[0] >> 10) & 0x3F, (w[0] >> 16) & 0x3F, true, W, &back, nullptr);
          if (!dec || back != eff)
            viol(key + "wrong-immediate", fmtstr("%s %u-bit, #0x%llx emitted 0x%08x whose N:immr:imms decodes to %s0x%llx (wanted 0x%llx)", K.name, W,
                 (unsigned long long)v, w[0], dec ? "" : "UNDEFINED/", (unsigned long long)back, (unsigned long long)eff));
          if ((w[0] & ~0x007FFC00u) != ref[k])
            viol(key + "other-bits-changed", fmtstr("%s %u-bit, #0x%llx emitted 0x%08x: bits outside N:immr:imms differ from the same instruction with #1 (0x%08x)",
                 K.name, W, (unsigned long long)v, w[0], ref[k]));
        }
        if ((n == 1) == kexp && (n == 1 ? (rng.next() % 160) == 0 : (rng.next() % 25000) == 0)) {
          char rc = W == 64 ? 'x' : 'w';
          xs.add(K.form == 0 ? fmtstr("%s %c3, %c5, #0x%llx", K.name, rc, rc, (unsigned long long)v) : fmtstr("%s %c5, #0x%llx", K.name, rc, (unsigned long long)v), n, w);
        }
      }
      check_mov(e, W, v, evals, "logical-neighbourhood");
      if (v) nontrivial++;
      check_mov_sp_zr(e, W, v, exp, evals);
      if (v) nontrivial += 2;
    }
  }
  printf("{\"mode\":\"logical\",\"evaluations\":%llu,\"nontrivial\":%llu,\"values\":%llu,\"accepted\":%llu,\"refused\":%llu,%s,\"xsamples\":[%s],\"violations\":%s}\n",
         (unsigned long long)evals, (unsigned long long)nontrivial, (unsigned long long)values, (unsigned long long)accepted, (unsigned long long)refused,
         sizes.c_str(), xs.js.c_str(), viol_json().c_str());
  return 0;
}

// ---- FP8 ---------------------------------------------------------------------------------------------------
// Arm ARM shared/functions/float: VFPExpandImm(imm8, N)
static uint64_t vfp_expand_imm(unsigned imm8, unsigned N) {
  unsigned E = N == 16 ? 5 : N == 32 ? 8 : 11;
  unsigned F = N - E - 1;
  uint64_t sign = (imm8 >> 7) & 1, b6 = (imm8 >> 6) & 1;
  uint64_t exp = ((b6 ^ 1) << (E - 1)) | ((b6 ? mask64(E - 3) : 0) << 2) | ((imm8 >> 4) & 3);
  uint64_t frac = uint64_t(imm8 & 15) << (F - 4);
  return (sign << (N - 1)) | (exp << F) | frac;
}
// exact widening of a normal half/single to double (written from IEEE 754, no library conversion)
static uint64_t widen_to_f64(uint64_t bits, unsigned N) {
  if (N == 64) return bits;
  unsigned E = N == 16 ? 5 : 8, F = N - E - 1;
  uint64_t sign = bits >> (N - 1), exp = (bits >> F) & mask64(E), frac = bits & mask64(F);
  int64_t bias = (1 << (E - 1)) - 1;
  return (sign << 63) | (uint64_t(int64_t(exp) - bias + 1023) << 52) | (frac << (52 - F));
}
static double f64_from_bits(uint64_t b) { double d; memcpy(&d, &b, 8); return d; }
static uint64_t bits_from_f64(double d) { uint64_t b; memcpy(&b, &d, 8); return b; }

static int mode_fp8(const Args& args) {
  uint64_t seed = args.u64("seed", 1), nrand = args.u64("random", 100000);
  bool all32 = args.has("all-f32");
  unsigned shard = unsigned(args.u64("shard", 0)), shards = unsigned(args.u64("shards", 1));
  Emu e;
  XSamples xs(unsigned(args.u64("xsamples", 300)));
  Rng rng(seed);
  uint64_t evals = 0, nontrivial = 0, accepted = 0, refused = 0;
  // ground truth: for each precision the 256 expansions; as doubles all three sets must coincide
  std::unordered_set<uint64_t> set16, set32, set64;
  std::map<uint64_t, unsigned> imm8_of;   // f64 bits -> imm8
  for (unsigned i = 0; i < 256; i++) {
    uint64_t h = vfp_expand_imm(i, 16), s = vfp_expand_imm(i, 32), d = vfp_expand_imm(i, 64);
    set16.insert(h); set32.insert(s); set64.insert(d);
    if (widen_to_f64(h, 16) != d || widen_to_f64(s, 32) != d) viol("harness:vfpexpand", "VFPExpandImm results differ across precisions");
    imm8_of[d] = i;
  }
  if (set64.size() != 256) viol("harness:vfpexpand", "VFPExpandImm does not produce 256 distinct doubles");

  // utilities: predicates over raw bit patterns
  if (shard == 0) {
    for (uint32_t h = 0; h < 0x10000; h++) {
      bool exp = set16.count(h) != 0, got = arm::Utils::is_fp16_imm8(h);
      evals++; if (exp || h) nontrivial += exp ? 1 : 0;
      if (got != exp) viol(std::string("B:fp8:is_fp16_imm8:") + (got ? "accepts-unencodable" : "refuses-encodable"), fmtstr("is_fp16_imm8(0x%04x) = %d, VFPExpandImm set membership = %d", h, got, exp));
    }
  }
  auto chk32 = [&](uint32_t s) {
    bool exp = set32.count(s) != 0, got = arm::Utils::is_fp32_imm8(s);
    evals++;
    if (got != exp) viol(std::string("B:fp8:is_fp32_imm8:") + (got ? "accepts-unencodable" : "refuses-encodable"), fmtstr("is_fp32_imm8(0x%08x) = %d, VFPExpandImm set membership = %d", s, got, exp));
  };
  auto chk64 = [&](uint64_t d) {
    bool exp = set64.count(d) != 0, got = arm::Utils::is_fp64_imm8(d);
    evals++;
    if (got != exp) viol(std::string("B:fp8:is_fp64_imm8:") + (got ? "accepts-unencodable" : "refuses-encodable"), fmtstr("is_fp64_imm8(0x%016llx) = %d, VFPExpandImm set membership = %d", (unsigned long long)d, got, exp));
    if (exp) {
      unsigned enc = arm::Utils::encode_fp64_to_imm8(d);
      evals++; nontrivial++;
      if (enc > 255 || vfp_expand_imm(enc, 64) != d) viol("B:fp8:encode_fp64_to_imm8:wrong-imm8", fmtstr("encode_fp64_to_imm8(0x%016llx) = 0x%x which expands to 0x%016llx", (unsigned long long)d, enc, (unsigned long long)vfp_expand_imm(enc & 255, 64)));
    }
  };
  if (all32) {
    uint64_t lo = (uint64_t(1) << 32) * shard / shards, hi = (uint64_t(1) << 32) * (shard + 1) / shards;
    for (uint64_t s = lo; s < hi; s++) chk32(uint32_t(s));
  }
  // candidate doubles: members, every single-bit neighbour, +-1 ulp, specials, integers, randoms
  std::vector<uint64_t> cand;
  for (auto& kv : imm8_of) {
    uint64_t d = kv.first;
    cand.push_back(d); cand.push_back(d + 1); cand.push_back(d - 1);
    for (unsigned b = 0; b < 64; b++) cand.push_back(d ^ (1ull << b));
  }
  for (double x : { 0.0, -0.0, 0.0625, 0.1171875, 0.12109375, 32.0, 33.0, 31.5, 0.1, 1e300, 1e-300, 4.9e-324 }) { cand.push_back(bits_from_f64(x)); cand.push_back(bits_from_f64(-x)); }
  cand.push_back(0x7FF0000000000000ull); cand.push_back(0xFFF0000000000000ull); cand.push_back(0x7FF8000000000000ull); cand.push_back(0x7FF0000000000001ull);
  for (uint64_t i = 0; i < nrand; i++) {
    uint64_t r = rng.next();
    if (i % 3 == 0) cand.push_back(r);
    else if (i % 3 == 1) cand.push_back(bits_from_f64(double(int64_t(r % 2049) - 1024) / double(1u << (r >> 60))));   // small dyadic rationals
    else { uint64_t d = vfp_expand_imm(unsigned(r & 255), 64); cand.push_back(d ^ (rng.next() & rng.next() & rng.next() & mask64(52))); }
  }
  std::sort(cand.begin(), cand.end());
  cand.erase(std::unique(cand.begin(), cand.end()), cand.end());

  struct Kind { const char* name; a64::Vec reg; unsigned N; bool vec; const char* text; };
  const Kind kinds[] = {
    { "h", a64::h1, 16, false, "h1" }, { "s", a64::s1, 32, false, "s1" }, { "d", a64::d1, 64, false, "d1" },
    { "v4h", a64::v1.h4(), 16, true, "v1.4h" }, { "v8h", a64::v1.h8(), 16, true, "v1.8h" },
    { "v2s", a64::v1.s2(), 32, true, "v1.2s" }, { "v4s", a64::v1.s4(), 32, true, "v1.4s" }, { "v2d", a64::v1.d2(), 64, true, "v1.2d" },
  };
  const unsigned NK = 8;
  uint32_t ref[NK];
  for (unsigned k = 0; k < NK; k++) {
    uint32_t w[4];
    int n = e.emit(w, a64::Inst::kIdFmov_v, kinds[k].reg, Imm(1.0));
    uint32_t immmask = kinds[k].vec ? ((7u << 16) | (31u << 5)) : (0xFFu << 13);
    ref[k] = n == 1 ? (w[0] & ~immmask) : 0;
    if (n != 1) viol(std::string("harness:fmov-ref:") + kinds[k].name, fmtstr("reference emission fmov %s, #1.0 failed: %s", kinds[k].text, DebugUtils::error_as_string(e.last)));
  }
  for (size_t ci = 0; ci < cand.size(); ci++) {
    if (ci % shards != shard) continue;
    uint64_t d = cand[ci];
    bool exp = set64.count(d) != 0;
    chk64(d);
    // float neighbours through the single-precision predicate
    chk32(uint32_t(d >> 32)); chk32(uint32_t(d));
    double val = f64_from_bits(d);
    for (unsigned k = 0; k < NK; k++) {
      const Kind& K = kinds[k];
      uint32_t w[4];
      int n = e.emit(w, a64::Inst::kIdFmov_v, K.reg, Imm(val));
      evals++;
      if (exp || (d << 1)) nontrivial++;
      if (n == 1) accepted++; else refused++;
      std::string key = std::string("B:fp8:fmov-") + K.name + ":";
      if ((n == 1) != exp)
        viol(key + (n == 1 ? "accepts-unencodable" : "refuses-encodable"), fmtstr("fmov %s, #%.17g (bits 0x%016llx): assembler %s (%s), VFPExpandImm membership = %d",
             K.text, val, (unsigned long long)d, n == 1 ? "accepted" : "refused", DebugUtils::error_as_string(e.last), exp));
      else if (n == 1) {
        unsigned imm8 = K.vec ? ((((w[0] >> 16) & 7) << 5) | ((w[0] >> 5) & 31)) : ((w[0] >> 13) & 0xFF);
        uint32_t immmask = K.vec ? ((7u << 16) | (31u << 5)) : (0xFFu << 13);
        uint64_t back = widen_to_f64(vfp_expand_imm(imm8, K.N), K.N);
        if (back != d) viol(key + "wrong-immediate", fmtstr("fmov %s, #%.17g emitted 0x%08x: imm8=0x%02x expands to %.17g", K.text, val, w[0], imm8, f64_from_bits(back)));
        if ((w[0] & ~immmask) != ref[k]) viol(key + "other-bits-changed", fmtstr("fmov %s, #%.17g emitted 0x%08x: bits outside imm8 differ from fmov #1.0 (0x%08x)", K.text, val, w[0], ref[k]));
      }
      // llvm-mc rounds the literal to the destination precision before judging it: only sample values every precision holds exactly
      int ex = int((d >> 52) & 0x7FF) - 1023;
      bool finite = (d & mask64(42)) == 0 && ex >= -14 && ex <= 15;
      if (finite && (n == 1) == exp && ((rng.next() & 0xFF) < 2 || (exp && (rng.next() & 15) == 0)))
        xs.add(fmtstr("fmov %s, #%.17g", K.text, val), n, w);
    }
  }
  // integer immediates take a separate path in the assembler (Imm of integer type)
  if (shard == 0) {
    for (int iv = -40; iv <= 40; iv++) {
      bool exp = set64.count(bits_from_f64(double(iv))) != 0;
      for (unsigned k = 0; k < NK; k++) {
        uint32_t w[4];
        int n = e.emit(w, a64::Inst::kIdFmov_v, kinds[k].reg, Imm(iv));
        evals++; if (iv) nontrivial++;
        if ((n == 1) != exp) viol(std::string("B:fp8:fmov-int-") + kinds[k].name + (n == 1 ? ":accepts-unencodable" : ":refuses-encodable"),
                                  fmtstr("fmov %s, #%d (integer immediate): assembler %s, membership = %d", kinds[k].text, iv, n == 1 ? "accepted" : "refused", exp));
        else if (n == 1) {
          unsigned imm8 = kinds[k].vec ? ((((w[0] >> 16) & 7) << 5) | ((w[0] >> 5) & 31)) : ((w[0] >> 13) & 0xFF);
          if (f64_from_bits(widen_to_f64(vfp_expand_imm(imm8, kinds[k].N), kinds[k].N)) != double(iv))
            viol(std::string("B:fp8:fmov-int-") + kinds[k].name + ":wrong-immediate", fmtstr("fmov %s, #%d emitted 0x%08x (imm8=0x%02x)", kinds[k].text, iv, w[0], imm8));
        }
      }
    }
  }
  printf("{\"mode\":\"fp8\",\"evaluations\":%llu,\"nontrivial\":%llu,\"accepted\":%llu,\"refused\":%llu,\"candidates\":%zu,\"f16_patterns_exhaustive\":%s,\"f32_patterns_exhaustive\":%s,\"xsamples\":[%s],\"violations\":%s}\n",
         (unsigned long long)evals, (unsigned long long)nontrivial, (unsigned long long)accepted, (unsigned long long)refused, cand.size(),
         shard == 0 ? "true" : "false", all32 ? "true" : "false", xs.js.c_str(), viol_json().c_str());
  return 0;
}

// ---- add/sub immediates --------------------------------------------------------------------------------------
static int mode_addsub(const Args& args) {
  uint64_t seed = args.u64("seed", 1), lo = args.u64("lo", 0), hi = args.u64("hi", 1 << 24);
  unsigned kinds_per_value = unsigned(args.u64("kinds-per-value", 12));   // 12 = every kind for every value
  bool extras = args.has("extras");
  Emu e;
  XSamples xs(unsigned(args.u64("xsamples", 300)));
  Rng rng(seed);
  uint64_t evals = 0, nontrivial = 0, accepted = 0, refused = 0;
  struct Kind { const char* name; InstId id; int form; unsigned W; };   // form 0: rd,rn,imm ; 1: rn,imm
  std::vector<Kind> kinds;
  for (unsigned W : { 64u, 32u }) {
    kinds.push_back({ "add", a64::Inst::kIdAdd, 0, W }); kinds.push_back({ "sub", a64::Inst::kIdSub, 0, W });
    kinds.push_back({ "adds", a64::Inst::kIdAdds, 0, W }); kinds.push_back({ "subs", a64::Inst::kIdSubs, 0, W });
    kinds.push_back({ "cmp", a64::Inst::kIdCmp, 1, W }); kinds.push_back({ "cmn", a64::Inst::kIdCmn, 1, W });
  }
  const uint32_t IMMF = 0x007FFC00u;   // sh(22) imm12(21:10)
  std::vector<uint32_t> ref(kinds.size());
  auto regs = [&](const Kind& K, a64::Gp& rd, a64::Gp& rn) { rd = K.W == 64 ? a64::Gp(a64::x3) : a64::Gp(a64::w3); rn = K.W == 64 ? a64::Gp(a64::x5) : a64::Gp(a64::w5); };
  for (size_t k = 0; k < kinds.size(); k++) {
    a64::Gp rd, rn; regs(kinds[k], rd, rn);
    uint32_t w[4];
    int n = kinds[k].form == 0 ? e.emit(w, kinds[k].id, rd, rn, Imm(0)) : e.emit(w, kinds[k].id, rn, Imm(0));
    ref[k] = n == 1 ? w[0] : 0;
    if (n != 1 || (w[0] & IMMF)) viol(fmtstr("harness:addsub-ref:%s%u", kinds[k].name, kinds[k].W), "reference emission with #0 failed");
  }
  auto encodable = [](uint64_t v) { return v <= 0xFFFull || ((v & 0xFFFull) == 0 && v <= 0xFFF000ull); };
  // one (kind, value[, explicit shift]) case. shift_op: -1 none, 0 lsl #0, 12 lsl #12
  auto one = [&](size_t k, uint64_t v, int shift_op) {
    const Kind& K = kinds[k];
    a64::Gp rd, rn; regs(K, rd, rn);
    uint32_t w[4];
    int n;
    if (shift_op < 0) n = K.form == 0 ? e.emit(w, K.id, rd, rn, Imm(v)) : e.emit(w, K.id, rn, Imm(v));
    else n = e.emit(w, K.id, rd, rn, Imm(v), Imm(a64::lsl(uint32_t(shift_op))));
    // requested value: v << shift (u128: no wrap)
    u128 want = u128(v) << (shift_op > 0 ? shift_op : 0);
    bool exp = want <= 0xFFF000ull && encodable(uint64_t(want));
    evals++;
    if (v && (exp || v < (1ull << 25))) nontrivial++;
    if (n == 1) accepted++; else refused++;
    std::string key = fmtstr("B:addsub:%s%u%s:", K.name, K.W, shift_op < 0 ? "" : shift_op ? "-lsl12" : "-lsl0");
    if ((n == 1) != exp)
      viol(key + (n == 1 ? "accepts-unencodable" : "refuses-encodable"), fmtstr("%s (%u-bit) #0x%llx%s: assembler %s (%s) but imm12/imm12<<12 %s represent it", K.name, K.W,
           (unsigned long long)v, shift_op < 0 ? "" : shift_op ? ", lsl #12" : ", lsl #0", n == 1 ? "accepted" : "refused", DebugUtils::error_as_string(e.last), exp ? "can" : "cannot"));
    else if (n == 1) {
      uint64_t back = uint64_t((w[0] >> 10) & 0xFFF) << (((w[0] >> 22) & 1) ? 12 : 0);
      if (back != uint64_t(want)) viol(key + "wrong-immediate", fmtstr("%s (%u-bit) #0x%llx emitted 0x%08x which encodes #0x%llx", K.name, K.W, (unsigned long long)v, w[0], (unsigned long long)back));
      if (((w[0] ^ ref[k]) & ~IMMF) != 0) viol(key + "other-bits-changed", fmtstr("%s (%u-bit) #0x%llx emitted 0x%08x, reference with #0 is 0x%08x", K.name, K.W, (unsigned long long)v, w[0], ref[k]));
    }
    if (shift_op != 0 && (n == 1) == exp && ((rng.next() & 0xFFFFF) < 40 || (n == 1 && v > 0xFFF && (rng.next() & 0xFF) < 8) || (v < 0x2100 && (rng.next() & 0x7FF) < 3))) {
      std::string t = K.form == 0 ? fmtstr("%s %c3, %c5, #%llu", K.name, K.W == 64 ? 'x' : 'w', K.W == 64 ? 'x' : 'w', (unsigned long long)v)
                                  : fmtstr("%s %c5, #%llu", K.name, K.W == 64 ? 'x' : 'w', (unsigned long long)v);
      if (shift_op == 12) t += ", lsl #12";
      xs.add(t, n, w);
    }
  };
  uint64_t is_evals = 0;
  for (uint64_t v = lo; v < hi; v++) {
    bool exp = encodable(v), got = arm::Utils::is_add_sub_imm(v);
    is_evals++;
    if (got != exp) viol(std::string("B:addsub:is_add_sub_imm:") + (got ? "accepts-unencodable" : "refuses-encodable"), fmtstr("is_add_sub_imm(0x%llx) = %d", (unsigned long long)v, got));
    bool structured = v <= 0x2100 || (v & 0xFFF) <= 1 || (v & 0xFFF) == 0xFFF;
    if (structured || kinds_per_value >= kinds.size()) { for (size_t k = 0; k < kinds.size(); k++) one(k, v, -1); }
    else { for (unsigned j = 0; j < kinds_per_value; j++) one((v * 5 + j * 7 + seed) % kinds.size(), v, -1); }
    if (v <= 0x1100 || ((v & 0xFFF) == 0 && v <= 0x1001000)) {
      for (size_t k = 0; k < kinds.size(); k++) if (kinds[k].form == 0) { one(k, v, 0); one(k, v, 12); }
    }
  }
  if (extras) {
    std::vector<uint64_t> ex;
    for (uint64_t b : { 1ull << 24, 1ull << 32, 1ull << 36, 1ull << 44, 1ull << 63 })
      for (uint64_t o : { 0ull, 1ull, 0xFFFull, 0x1000ull, 0xFFF000ull, 0x1001ull }) { ex.push_back(b + o); ex.push_back(b - o); }
    for (int64_t neg : { -1ll, -2ll, -4095ll, -4096ll, -4097ll, -0x1000000ll }) ex.push_back(uint64_t(neg));
    for (int i = 0; i < 20000; i++) { uint64_t r = rng.next(); ex.push_back(r >> (r & 63)); }
    std::sort(ex.begin(), ex.end()); ex.erase(std::unique(ex.begin(), ex.end()), ex.end());
    for (uint64_t v : ex) {
      if (v < (1ull << 24)) continue;
      bool got = arm::Utils::is_add_sub_imm(v); is_evals++;
      if (got) viol("B:addsub:is_add_sub_imm:accepts-unencodable", fmtstr("is_add_sub_imm(0x%llx) = 1", (unsigned long long)v));
      for (size_t k = 0; k < kinds.size(); k++) { one(k, v, -1); if (kinds[k].form == 0) one(k, v, 12); }
    }
  }
  evals += is_evals; nontrivial += is_evals ? is_evals - (lo == 0 ? 1 : 0) : 0;
  printf("{\"mode\":\"addsub\",\"evaluations\":%llu,\"nontrivial\":%llu,\"accepted\":%llu,\"refused\":%llu,\"lo\":%llu,\"hi\":%llu,\"kinds_per_value\":%u,\"xsamples\":[%s],\"violations\":%s}\n",
         (unsigned long long)evals, (unsigned long long)nontrivial, (unsigned long long)accepted, (unsigned long long)refused, (unsigned long long)lo, (unsigned long long)hi,
         kinds_per_value, xs.js.c_str(), viol_json().c_str());
  return 0;
}

// ---- move wide ---------------------------------------------------------------------------------------------
static int mode_movwide(const Args& args) {
  uint64_t seed = args.u64("seed", 1), nrand = args.u64("random", 200000), reps = args.u64("reps", 200);
  Emu e;
  Rng rng(seed);
  uint64_t evals = 0;
  std::vector<uint64_t> vals;
  // structured: each half-word in {0, 0xFFFF, random}
  for (uint64_t rep = 0; rep < reps; rep++)
    for (unsigned pat = 0; pat < 81; pat++) {
      uint64_t v = 0; unsigned p = pat;
      for (unsigned hw = 0; hw < 4; hw++, p /= 3) {
        uint64_t h = (p % 3) == 0 ? 0 : (p % 3) == 1 ? 0xFFFF : (rng.next() & 0xFFFF);
        v |= h << (hw * 16);
      }
      vals.push_back(v);
    }
  for (uint64_t i = 0; i < nrand; i++) {
    uint64_t r = rng.next();
    vals.push_back(r);
    vals.push_back(r & 0xFFFFFFFFull);
    vals.push_back(r | 0xFFFFFFFF00000000ull);
    if ((i & 7) == 0) vals.push_back(r >> (rng.next() & 63));
    if ((i & 7) == 1) vals.push_back(~(r >> (rng.next() & 63)));
    if ((i & 7) == 2) { unsigned a = unsigned(rng.below(64)), b = unsigned(rng.below(64)); vals.push_back(ror_n(mask64(a + 1), b, 64)); }   // bitmask-immediate shaped
  }
  for (uint64_t k = 0; k < 0x10000; k += 0x101) { vals.push_back(k); vals.push_back(~k); vals.push_back(k << 16); vals.push_back(k << 32); vals.push_back(k << 48); }
  std::sort(vals.begin(), vals.end()); vals.erase(std::unique(vals.begin(), vals.end()), vals.end());
  uint64_t nontrivial = 0;
  for (uint64_t v : vals) {
    check_mov(e, 64, v, evals, "const");
    if (v) nontrivial++;
    uint64_t v32 = v & 0xFFFFFFFFull;
    check_mov(e, 32, v32, evals, "const");
    if (v32) nontrivial++;
    if ((v & 0xFF) == 0x5A) { check_mov(e, 32, v, evals, "const-upper-bits-ignored"); }   // documented: the upper half of a W move is masked
  }
  // sequence shapes, for the evidence
  uint64_t by_len[5] = { 0, 0, 0, 0, 0 };
  for (size_t i = 0; i < vals.size(); i += 16) {
    uint32_t w[4]; int n = e.emit(w, a64::Inst::kIdMov, a64::x7, Imm(vals[i]));
    if (n >= 1 && n <= 4) by_len[n]++;
  }
  printf("{\"mode\":\"movwide\",\"evaluations\":%llu,\"nontrivial\":%llu,\"constants\":%zu,\"sequence_length_histogram_sampled\":[%llu,%llu,%llu,%llu],\"xsamples\":[],\"violations\":%s}\n",
         (unsigned long long)evals, (unsigned long long)nontrivial, vals.size(), (unsigned long long)by_len[1], (unsigned long long)by_len[2],
         (unsigned long long)by_len[3], (unsigned long long)by_len[4], viol_json().c_str());
  return 0;
}

// ---- bitfield positions ----------------------------------------------------------------------------------------
// Arm ARM: SBFM/BFM/UBFM operational pseudo code
static bool eval_bfm(uint32_t op, unsigned W, uint64_t dst, uint64_t src, uint64_t* res) {
  unsigned sf = op >> 31, opc = (op >> 29) & 3, N = (op >> 22) & 1, immr = (op >> 16) & 63, imms = (op >> 10) & 63;
  if (((op >> 23) & 0x3F) != 0x26 || opc == 3) return false;
  if (sf != (W == 64) || N != sf) return false;
  if (!sf && ((immr | imms) & 32)) return false;
  uint64_t wmask, tmask;
  if (!decode_bit_masks(N, imms, immr, false, W, &wmask, &tmask)) return false;
  uint64_t M = mask64(W);
  src &= M; dst &= M;
  uint64_t rot = ror_n(src, immr, W);
  if (opc == 1) { uint64_t bot = (dst & ~wmask) | (rot & wmask); *res = ((dst & ~tmask) | (bot & tmask)) & M; }
  else if (opc == 0) { uint64_t bot = rot & wmask; uint64_t top = ((src >> imms) & 1) ? M : 0; *res = ((top & ~tmask) | (bot & tmask)) & M; }
  else { *res = (rot & wmask) & tmask & M; }
  return true;
}

enum BfKind { BF_BFI, BF_SBFIZ, BF_UBFIZ, BF_BFXIL, BF_SBFX, BF_UBFX, BF_BFC, BF_LSL, BF_LSR, BF_ASR, BF_ROR, BF_COUNT };

// the aliases' own definitions (Arm ARM alias descriptions), independent of immr/imms
static uint64_t alias_semantics(int kind, unsigned W, uint64_t dst, uint64_t src, unsigned lsb, unsigned width) {
  uint64_t M = mask64(W), fm = mask64(width);
  src &= M; dst &= M;
  switch (kind) {
    case BF_BFI: return ((dst & ~(fm << lsb)) | ((src & fm) << lsb)) & M;
    case BF_BFC: return (dst & ~(fm << lsb)) & M;
    case BF_UBFIZ: return ((src & fm) << lsb) & M;
    case BF_SBFIZ: return (uint64_t(sext(src & fm, width)) << lsb) & M;
    case BF_BFXIL: return ((dst & ~fm) | ((src >> lsb) & fm)) & M;
    case BF_UBFX: return (src >> lsb) & fm;
    case BF_SBFX: return uint64_t(sext((src >> lsb) & fm, width)) & M;
    case BF_LSL: return (src << lsb) & M;
    case BF_LSR: return src >> lsb;
    case BF_ASR: return (uint64_t(sext(src, W) >> lsb)) & M;
    case BF_ROR: return ror_n(src, lsb, W);
  }
  return 0;
}

static int mode_bitfield(const Args& args) {
  uint64_t seed = args.u64("seed", 1);
  Emu e;
  XSamples xs(unsigned(args.u64("xsamples", 400)));
  Rng rng(seed);
  uint64_t evals = 0, nontrivial = 0, accepted = 0, refused = 0;
  struct K { int kind; const char* name; InstId id; int nimm; unsigned opc; };
  const K kinds[] = {
    { BF_BFI, "bfi", a64::Inst::kIdBfi, 2, 1 }, { BF_SBFIZ, "sbfiz", a64::Inst::kIdSbfiz, 2, 0 }, { BF_UBFIZ, "ubfiz", a64::Inst::kIdUbfiz, 2, 2 },
    { BF_BFXIL, "bfxil", a64::Inst::kIdBfxil, 2, 1 }, { BF_SBFX, "sbfx", a64::Inst::kIdSbfx, 2, 0 }, { BF_UBFX, "ubfx", a64::Inst::kIdUbfx, 2, 2 },
    { BF_BFC, "bfc", a64::Inst::kIdBfc, 2, 1 },
    { BF_LSL, "lsl", a64::Inst::kIdLsl, 1, 2 }, { BF_LSR, "lsr", a64::Inst::kIdLsr, 1, 2 }, { BF_ASR, "asr", a64::Inst::kIdAsr, 1, 0 },
    { BF_ROR, "ror", a64::Inst::kIdRor, 1, 0 },
  };
  uint64_t operands[8][2];
  for (auto& o : operands) { o[0] = rng.next(); o[1] = rng.next(); }
  operands[0][0] = 0; operands[0][1] = ~0ull; operands[1][0] = ~0ull; operands[1][1] = 0;
  operands[2][0] = 0x5555555555555555ull; operands[2][1] = 0x0123456789ABCDEFull; operands[3][0] = ~0ull; operands[3][1] = 0x8000000080000001ull;
  for (unsigned W : { 32u, 64u }) {
    std::vector<uint64_t> pos;
    for (unsigned i = 0; i <= W + 2; i++) pos.push_back(i);
    for (uint64_t x : { 1ull << 32, (1ull << 32) + 8, (1ull << 32) + W, 1ull << 63, ~0ull, ~0ull - 7, 128ull, 255ull, 256ull + 8 }) pos.push_back(x);
    a64::Gp rd = W == 64 ? a64::Gp(a64::x3) : a64::Gp(a64::w3), rn = W == 64 ? a64::Gp(a64::x5) : a64::Gp(a64::w5);
    char rc = W == 64 ? 'x' : 'w';
    for (const K& k : kinds) {
      for (uint64_t lsb : pos) {
        for (uint64_t width : pos) {
          if (k.nimm == 1 && width != 1) continue;
          uint32_t w[4]; int n;
          if (k.kind == BF_BFC) n = e.emit(w, k.id, rd, Imm(lsb), Imm(width));
          else if (k.nimm == 2) n = e.emit(w, k.id, rd, rn, Imm(lsb), Imm(width));
          else n = e.emit(w, k.id, rd, rn, Imm(lsb));
          bool exp = k.nimm == 1 ? lsb < W : (lsb < W && width >= 1 && width <= W - lsb);
          evals++;
          if (lsb <= W + 2 && width <= W + 2) nontrivial++;
          if (n == 1) accepted++; else refused++;
          std::string ksuf = fmtstr(":%s%u", k.name, W);
          std::string key = "B:bitfield:";
          std::string txt = k.kind == BF_BFC ? fmtstr("%s %c3, #%llu, #%llu", k.name, rc, (unsigned long long)lsb, (unsigned long long)width)
                          : k.nimm == 2 ? fmtstr("%s %c3, %c5, #%llu, #%llu", k.name, rc, rc, (unsigned long long)lsb, (unsigned long long)width)
                                        : fmtstr("%s %c3, %c5, #%llu", k.name, rc, rc, (unsigned long long)lsb);
          if ((n == 1) != exp) {
            std::string cls = n == 1 ? (lsb < W && width >= 1 && width <= W ? "accepts-lsb+width>size" : "accepts-unencodable") : "refuses-encodable";
            viol(key + cls + ksuf, fmtstr("%s: assembler %s (%s, word 0x%08x) but the instruction %s (lsb in 0..%u, width in 1..%u-lsb)", txt.c_str(), n == 1 ? "accepted" : "refused",
                 DebugUtils::error_as_string(e.last), n == 1 ? w[0] : 0, exp ? "has an encoding" : "has no encoding", W - 1, W));
          }
          else if (n == 1) {
            unsigned L = unsigned(lsb), Wd = unsigned(width);
            unsigned immr = (w[0] >> 16) & 63, imms = (w[0] >> 10) & 63;
            unsigned want_rn = k.kind == BF_BFC ? 31 : 5;
            if ((w[0] & 31) != 3 || ((w[0] >> 5) & 31) != want_rn) viol(key + "other-bits-changed" + ksuf, fmtstr("%s emitted 0x%08x: Rd/Rn fields are not 3/%u", txt.c_str(), w[0], want_rn));
            bool good = true; std::string how;
            if (k.kind == BF_ROR) {
              // ROR (immediate) = EXTR Rd, Rs, Rs, #shift
              bool shape = ((w[0] >> 23) & 0xFF) == 0x27 && (w[0] >> 31) == (W == 64) && ((w[0] >> 22) & 1) == (W == 64) && ((w[0] >> 21) & 1) == 0 && ((w[0] >> 16) & 31) == 5;
              if (!shape || imms != L || (W == 32 && (imms & 32))) { good = false; how = "not EXTR rd, rn, rn, #shift"; }
            }
            else {
              if (((w[0] >> 29) & 3) != k.opc) { good = false; how = "wrong opc (SBFM/BFM/UBFM selector)"; }
              // alias rules, Arm ARM C6.2: xBFIZ/BFI/BFC: immr = -lsb MOD size, imms = width-1 ; xBFX/BFXIL: immr = lsb, imms = lsb+width-1
              unsigned dl, dw;
              switch (k.kind) {
                case BF_BFI: case BF_SBFIZ: case BF_UBFIZ: case BF_BFC: dl = (W - immr) % W; dw = imms + 1; break;
                case BF_BFXIL: case BF_SBFX: case BF_UBFX: dl = immr; dw = imms - immr + 1; break;
                case BF_LSL: dl = (W - immr) % W; dw = 1; if (imms != W - 1 - dl) { good = false; how = "imms != size-1-shift"; } break;
                default: dl = immr; dw = 1; if (imms != W - 1) { good = false; how = "imms != size-1"; } break;
              }
              if (good && (dl != L || (k.nimm == 2 && dw != Wd))) { good = false; how = fmtstr("immr=%u imms=%u decode to lsb=%u width=%u by the alias rules", immr, imms, dl, dw); }
              // second, semantic decoder: execute the word per the SBFM/BFM/UBFM pseudo code and compare with the alias definition
              for (auto& o : operands) {
                uint64_t got = 0, dstv = o[0], srcv = k.kind == BF_BFC ? 0 : o[1];
                if (!eval_bfm(w[0], W, dstv, srcv, &got)) { good = false; how = "word is not a valid SBFM/BFM/UBFM"; break; }
                uint64_t want = alias_semantics(k.kind, W, dstv, srcv, L, k.nimm == 2 ? Wd : 1);
                if (got != want) { good = false; how = fmtstr("executing the word on dst=0x%llx src=0x%llx gives 0x%llx, the alias definition gives 0x%llx", (unsigned long long)(dstv & mask64(W)),
                                   (unsigned long long)(srcv & mask64(W)), (unsigned long long)got, (unsigned long long)want); break; }
              }
            }
            if (!good) viol(key + "wrong-immediate" + ksuf, fmtstr("%s emitted 0x%08x: %s", txt.c_str(), w[0], how.c_str()));
          }
          if ((n == 1) == exp && lsb <= W + 1 && width <= W + 1 && (rng.next() & 0xFF) < 3) xs.add(txt, n, w);
        }
      }
    }
  }
  printf("{\"mode\":\"bitfield\",\"evaluations\":%llu,\"nontrivial\":%llu,\"accepted\":%llu,\"refused\":%llu,\"xsamples\":[%s],\"violations\":%s}\n",
         (unsigned long long)evals, (unsigned long long)nontrivial, (unsigned long long)accepted, (unsigned long long)refused, xs.js.c_str(), viol_json().c_str());
  return 0;
}

// ---- AdvSIMD modified immediates (movi / mvni / orr / bic Vd.T, #imm{, lsl|msl #n}) ------------------------------------
// Arm ARM shared/functions/vector: AdvSIMDExpandImm(op, cmode, imm8) -> the 64-bit lane
static uint64_t rep64(uint64_t v, unsigned esize) {
  v &= mask64(esize);
  uint64_t o = 0;
  for (unsigned i = 0; i < 64; i += esize) o |= v << i;
  return o;
}
static uint64_t advsimd_expand_imm(unsigned op, unsigned cmode, unsigned imm8) {
  uint64_t i8 = imm8 & 0xFF;
  switch ((cmode >> 1) & 7) {
    case 0: case 1: case 2: case 3: return rep64(i8 << (8 * ((cmode >> 1) & 3)), 32);
    case 4: case 5: return rep64(i8 << (8 * ((cmode >> 1) & 1)), 16);
    case 6: return (cmode & 1) ? rep64((i8 << 16) | 0xFFFF, 32) : rep64((i8 << 8) | 0xFF, 32);
    default: break;
  }
  if (!(cmode & 1) && !op) return rep64(i8, 8);
  if (!(cmode & 1) && op) { uint64_t o = 0; for (unsigned i = 0; i < 8; i++) if ((i8 >> i) & 1) o |= 0xFFull << (8 * i); return o; }
  uint64_t a = (i8 >> 7) & 1, b = (i8 >> 6) & 1;
  if (!op) return rep64((a << 31) | ((b ^ 1) << 30) | ((b ? 0x1Full : 0) << 25) | ((i8 & 0x3F) << 19), 32);
  return (a << 63) | ((b ^ 1) << 62) | ((b ? 0xFFull : 0) << 54) | ((i8 & 0x3F) << 48);
}
enum { MI_MOVI = 0, MI_MVNI = 1, MI_ORR = 2, MI_BIC = 3, MI_FMOV = 4 };
static int modimm_class(unsigned op, unsigned cmode) {
  if (cmode == 15) return MI_FMOV;
  if (cmode == 14) return MI_MOVI;
  if (cmode >= 12) return op ? MI_MVNI : MI_MOVI;
  if (cmode & 1) return op ? MI_BIC : MI_ORR;
  return op ? MI_MVNI : MI_MOVI;
}
// what MOVI / MVNI write into each 64-bit lane (MVNI writes the complement); ORR / BIC: the immediate they apply
static uint64_t modimm_result(unsigned op, unsigned cmode, unsigned imm8) {
  uint64_t x = advsimd_expand_imm(op, cmode, imm8);
  return modimm_class(op, cmode) == MI_MVNI ? ~x : x;
}

static int mode_modimm(const Args& args) {
  unsigned only_kind = unsigned(args.u64("kind", 99));
  Emu e;
  XSamples xs(unsigned(args.u64("xsamples", 100)));
  Rng rng(args.u64("seed", 1));
  uint64_t evals = 0, nontrivial = 0, accepted = 0, refused = 0, no_verdict_refusals = 0;
  // ground truth: every lane value some MOVI / MVNI encoding writes
  std::unordered_set<uint64_t> movable;
  for (unsigned op = 0; op < 2; op++) for (unsigned cm = 0; cm < 15; cm++) {
    int c = modimm_class(op, cm);
    if (c != MI_MOVI && c != MI_MVNI) continue;
    for (unsigned i = 0; i < 256; i++) movable.insert(modimm_result(op, cm, i));
  }
  if (movable.size() < 3000 || movable.size() > 4608) viol("harness:modimm-set", fmtstr("own AdvSIMDExpandImm produces %zu MOVI/MVNI lane values", movable.size()));
  struct Arr { const char* name; a64::Vec reg; unsigned esize, q; };
  const Arr arrs[] = {
    { "v1.8b", a64::v1.b8(), 8, 0 }, { "v1.16b", a64::v1.b16(), 8, 1 }, { "v1.4h", a64::v1.h4(), 16, 0 }, { "v1.8h", a64::v1.h8(), 16, 1 },
    { "v1.2s", a64::v1.s2(), 32, 0 }, { "v1.4s", a64::v1.s4(), 32, 1 }, { "v1.2d", a64::v1.d2(), 64, 1 }, { "d1", a64::d1, 64, 0 },
  };
  struct Kind { const char* name; InstId id; int cls; };
  const Kind kinds[] = { { "movi", a64::Inst::kIdMovi_v, MI_MOVI }, { "mvni", a64::Inst::kIdMvni_v, MI_MVNI }, { "orr", a64::Inst::kIdOrr_v, MI_ORR }, { "bic", a64::Inst::kIdBic_v, MI_BIC } };
  const uint32_t IMMF = (1u << 29) | (7u << 16) | (0xFu << 12) | (0x1Fu << 5);
  static const unsigned lsl_ok[4][4] = { { 0 }, { 0, 8 }, { 0, 8, 16, 24 }, { 0 } };
  auto nshifts = [](unsigned esize) { return esize == 8 ? 1u : esize == 16 ? 2u : esize == 32 ? 4u : 0u; };
  auto eidx = [](unsigned esize) { return esize == 8 ? 0u : esize == 16 ? 1u : esize == 32 ? 2u : 3u; };

  for (unsigned ki = 0; ki < 4; ki++) {
    if (only_kind != 99 && only_kind != ki) continue;
    const Kind& K = kinds[ki];
    bool movish = K.cls == MI_MOVI || K.cls == MI_MVNI;
    for (const Arr& A : arrs) {
      if (!movish && (A.esize == 8 || A.esize == 64)) continue;     // orr / bic (immediate) exist for 16 and 32-bit elements only
      unsigned es = A.esize;
      uint32_t w[4];
      // reference: the same instruction with #1
      int rn = e.emit(w, K.id, A.reg, Imm(es == 64 ? 0xFFull : 1ull));
      uint32_t ref = rn == 1 ? (w[0] & ~IMMF) : 0;
      std::string kname = fmtstr("%s-%s", K.name, A.name + (A.name[0] == 'v' ? 3 : 0));
      if (rn != 1) { viol("harness:modimm-ref:" + kname, fmtstr("reference emission %s %s, #1 failed: %s", K.name, A.name, DebugUtils::error_as_string(e.last))); continue; }
      if (((ref >> 30) & 1) != A.q || (ref & 31) != 1 || (ref & 0x9FF80C00u) != 0x0F000400u)
        viol("B:modimm:" + kname + ":other-bits-changed", fmtstr("%s %s, #1 emitted 0x%08x: Q / Rd / fixed bits are not those of the modified-immediate group", K.name, A.name, w[0]));

      // the lane a request stands for; `explicit_shift`: 0 none, 1 lsl, 2 msl, 3 lsr (never valid)
      auto judge = [&](uint64_t imm, int sk, unsigned amt, const char* cls) {
        int n;
        const int sk_given = sk;
        if (sk == 0) n = e.emit(w, K.id, A.reg, Imm(imm));
        else n = e.emit(w, K.id, A.reg, Imm(imm), Imm(sk == 1 ? a64::lsl(amt) : sk == 2 ? a64::msl(amt) : a64::lsr(amt)));
        evals++;
        if (n == 1) accepted++; else refused++;
        // expectation
        bool valid_req = true, must_accept = false;
        uint64_t elem = 0;
        // a zero amount: AsmJit reads `#imm, lsl #0` like `#imm` (element value, replicated patterns included), and
        // a64assembler.cpp documents that the 64-bit forms take a zero amount although no shifted form exists
        // (`#imm, lsl #0` with an immediate above 0xFF is outside the Arm syntax, but AsmJit's movi / mvni reduce a replicated
        // pattern before they look at the shift operand: taken or not, what is emitted must be the element value)
        bool lenient = false;
        if (sk != 0 && amt == 0 && es == 64) sk = 0;
        else if (sk == 1 && amt == 0 && imm > 0xFF) { sk = 0; lenient = true; }
        if (sk == 0) {
          if (es < 64 && (imm >> es)) valid_req = false;
          elem = imm;
        }
        else if (es == 64) {
          valid_req = false;      // no shifted form exists
          elem = imm;
        }
        else if (sk == 1) {
          bool ok = false;
          for (unsigned i = 0; i < nshifts(es); i++) if (lsl_ok[eidx(es)][i] == amt) ok = true;
          if (!ok || imm > 0xFF) valid_req = false;
          elem = imm << (amt & 31);
          must_accept = valid_req;
        }
        else if (sk == 2) {
          if (!movish || es != 32 || (amt != 8 && amt != 16) || imm > 0xFF) valid_req = false;
          elem = (imm << (amt & 31)) | mask64(amt & 31);
          must_accept = valid_req;
        }
        else valid_req = false;
        uint64_t lane = rep64(elem, es);
        if (K.cls == MI_MVNI) lane = ~lane;
        bool encodable = valid_req;
        if (valid_req && (sk == 0 || es == 64)) {
          if (movish) encodable = movable.count(lane) != 0;
          else { encodable = false; for (unsigned i = 0; i < nshifts(es); i++) { unsigned a = lsl_ok[eidx(es)][i]; if (((elem >> a) << a) == elem && (elem >> a) <= 0xFF) encodable = true; } }
          // the requests AsmJit's two-operand form is made for must be taken: imm8 << 8k in the given element size, and byte masks
          if (es == 64) { must_accept = K.cls == MI_MOVI && sk == 0; for (unsigned i = 0; i < 8; i++) { unsigned b = (elem >> (8 * i)) & 0xFF; if (b != 0 && b != 0xFF) must_accept = false; } }
          else if (!(K.cls == MI_MVNI && es == 8)) for (unsigned i = 0; i < nshifts(es); i++) { unsigned a = lsl_ok[eidx(es)][i]; if (((elem >> a) << a) == elem && (elem >> a) <= 0xFF) must_accept = true; }
        }
        if (lenient) must_accept = false;
        if (encodable || (n == 1)) nontrivial++;
        std::string key = "B:modimm:" + kname + (sk_given == 0 ? "" : sk_given == 1 ? "-lsl" : sk_given == 2 ? "-msl" : "-lsr") + ":";
        std::string txt = fmtstr("%s %s, #0x%llx%s", K.name, A.name, (unsigned long long)imm, sk_given == 0 ? "" : fmtstr(", %s #%u", sk_given == 1 ? "lsl" : sk_given == 2 ? "msl" : "lsr", amt).c_str());
        if (n == 1 && !encodable) {
          viol(key + "accepts-unencodable", fmtstr("%s [%s]: accepted (word 0x%08x) but %s", txt.c_str(), cls, w[0], valid_req ? "no MOVI/MVNI/ORR/BIC encoding produces the requested lane value" : "the operands are outside the syntax (immediate above its range, shift kind / amount that does not exist for this element size)"));
          return;
        }
        if (n != 1) {
          if (must_accept) viol(key + "refuses-encodable", fmtstr("%s [%s]: refused (%s) although imm8 << 8k / the byte mask is directly encodable", txt.c_str(), cls, DebugUtils::error_as_string(e.last)));
          else if (encodable) no_verdict_refusals++;
          return;
        }
        unsigned op = (w[0] >> 29) & 1, cm = (w[0] >> 12) & 15, i8 = (((w[0] >> 16) & 7) << 5) | ((w[0] >> 5) & 31);
        int c = modimm_class(op, cm);
        bool cls_ok = movish ? (c == MI_MOVI || c == MI_MVNI) : c == K.cls;
        uint64_t got = modimm_result(op, cm, i8);
        if (!cls_ok || got != lane)
          viol(key + "wrong-immediate", fmtstr("%s [%s] emitted 0x%08x: op:cmode:imm8 = %u:%x:0x%02x is %s and gives lane 0x%016llx, wanted lane 0x%016llx", txt.c_str(), cls, w[0], op, cm, i8,
               c == MI_MOVI ? "MOVI" : c == MI_MVNI ? "MVNI" : c == MI_ORR ? "ORR" : c == MI_BIC ? "BIC" : "FMOV", (unsigned long long)got, (unsigned long long)lane));
        if ((w[0] & ~IMMF) != ref)
          viol(key + "other-bits-changed", fmtstr("%s [%s] emitted 0x%08x: bits outside op / cmode / abc / defgh differ from the same instruction with #1 (0x%08x)", txt.c_str(), cls, w[0], ref));
        // llvm-mc knows the Arm syntax only: sample explicit forms and plain imm8 / byte masks
        bool bytemask = true;
        for (unsigned i = 0; i < 8; i++) { unsigned b = (imm >> (8 * i)) & 0xFF; if (b != 0 && b != 0xFF) bytemask = false; }
        bool arm_syntax = !(K.cls == MI_MVNI && (es == 8 || es == 64)) && sk_given == sk && ((sk != 0 && es != 64 && es != 8) || (sk == 0 && (es == 64 ? bytemask : imm <= 0xFF)));   // (llvm-mc 14 takes no `lsl #0` on 8-bit elements)
        if (arm_syntax && (rng.next() & 0x3FF) < 6) xs.add(txt, n, w);
      };

      // (1) explicit shifts: every imm8 x every amount / kind of interest, plus immediates above the range
      static const unsigned amts[] = { 0, 1, 4, 7, 8, 9, 12, 16, 17, 24, 25, 31, 32, 33, 40, 56, 63, 64, 255 };
      for (unsigned i8 = 0; i8 < 256; i8++)
        for (unsigned a : amts) { judge(i8, 1, a, "imm8,lsl"); judge(i8, 2, a, "imm8,msl"); if ((i8 & 63) == 5) judge(i8, 3, a, "imm8,lsr"); }
      for (uint64_t big : { 0x100ull, 0x101ull, 0x1FFull, 0xFF00ull, 0x10000ull, 0x100000001ull, 0x8000000000000001ull, ~0ull })
        for (unsigned a : { 0u, 8u, 16u }) { judge(big, 1, a, "above-imm8,lsl"); judge(big, 2, a, "above-imm8,msl"); }
      // (2) two-operand requests: every encodable element value, every value one bit away, limits and 2^32 + x
      std::vector<uint64_t> vals;
      for (uint64_t L : movable) {
        uint64_t l = K.cls == MI_MVNI ? ~L : L;
        if (rep64(l, es) == l) vals.push_back(l & mask64(es));
      }
      size_t members = vals.size();
      for (size_t i = 0; i < members; i++) for (unsigned b = 0; b < es; b++) vals.push_back(vals[i] ^ (1ull << b));
      for (uint64_t x : { 0ull, 1ull, 0xFFull, 0x100ull, 0x1FEull, 0x1FE00ull, 0xFF00ull, 0xFFFFull, 0x10000ull, 0xFF0000ull, 0xFF000000ull, 0xFFFFFFFFull, 0x100000000ull, 0x1000000FFull,
                          0xFFFFFFFF000000FFull, 0x8000000000000000ull, ~0ull, 0x00FF00FF00FF00FFull, 0xFF00FF0000FFFF01ull })
        vals.push_back(x);
      for (int i = 0; i < 2000; i++) { uint64_t r = rng.next(); vals.push_back(r); vals.push_back(r & mask64(es)); vals.push_back(((r & 0xFF) << (8 * ((r >> 8) & 7))) | (1ull << 32)); }
      std::sort(vals.begin(), vals.end()); vals.erase(std::unique(vals.begin(), vals.end()), vals.end());
      for (uint64_t v : vals) judge(v, 0, 0, "element value");
      if (es == 64) for (uint64_t v : vals) if ((v & 0xFF) == 0xFF) { judge(v, 1, 0, "lsl #0 on 64-bit elements"); judge(v, 1, 8, "shift on 64-bit elements"); judge(v, 2, 8, "shift on 64-bit elements"); }
    }
  }
  printf("{\"mode\":\"modimm\",\"evaluations\":%llu,\"nontrivial\":%llu,\"accepted\":%llu,\"refused\":%llu,\"movable_lane_values\":%zu,\"encodable_by_another_class_refused_no_verdict\":%llu,\"xsamples\":[%s],\"violations\":%s}\n",
         (unsigned long long)evals, (unsigned long long)nontrivial, (unsigned long long)accepted, (unsigned long long)refused, movable.size(),
         (unsigned long long)no_verdict_refusals, xs.js.c_str(), viol_json().c_str());
  return 0;
}

// ---- SIMD shift by immediate and fixed-point #fbits -------------------------------------------------------------------
static a64::Vec vec_of(unsigned id, unsigned esize, unsigned lanes) {   // lanes 0 = scalar
  a64::Vec v = a64::v(id);
  if (!lanes) return esize == 8 ? v.b() : esize == 16 ? v.h() : esize == 32 ? v.s() : esize == 64 ? v.d() : v.q();
  unsigned bits = esize * lanes;
  a64::VecElementType et = esize == 8 ? a64::VecElementType::kB : esize == 16 ? a64::VecElementType::kH : esize == 32 ? a64::VecElementType::kS : a64::VecElementType::kD;
  a64::Vec r = bits == 64 ? v.d() : v.q();
  r.set_element_type(et);
  return r;
}
static std::string vec_text(unsigned id, unsigned esize, unsigned lanes) {
  const char c = esize == 8 ? 'b' : esize == 16 ? 'h' : esize == 32 ? 's' : 'd';
  return lanes ? fmtstr("v%u.%u%c", id, lanes, c) : fmtstr("%c%u", c, id);
}

static int mode_simdshift(const Args& args) {
  Emu e;
  XSamples xs(unsigned(args.u64("xsamples", 200)));
  Rng rng(args.u64("seed", 1));
  uint64_t evals = 0, nontrivial = 0, accepted = 0, refused = 0;
  enum { L = 0, R = 1, N = 2, LL = 3, F = 4 };   // left / right / narrowing right / long left / fixed-point fbits
  struct M { const char* name; InstId id; int kind; bool scalar_all; bool scalar_d; bool hi; };   // hi: the "2" variant (upper half)
  const M ms[] = {
    { "shl", a64::Inst::kIdShl_v, L, false, true, false }, { "sli", a64::Inst::kIdSli_v, L, false, true, false },
    { "sqshl", a64::Inst::kIdSqshl_v, L, true, true, false }, { "sqshlu", a64::Inst::kIdSqshlu_v, L, true, true, false }, { "uqshl", a64::Inst::kIdUqshl_v, L, true, true, false },
    { "sshr", a64::Inst::kIdSshr_v, R, false, true, false }, { "ushr", a64::Inst::kIdUshr_v, R, false, true, false }, { "srshr", a64::Inst::kIdSrshr_v, R, false, true, false },
    { "urshr", a64::Inst::kIdUrshr_v, R, false, true, false }, { "ssra", a64::Inst::kIdSsra_v, R, false, true, false }, { "usra", a64::Inst::kIdUsra_v, R, false, true, false },
    { "srsra", a64::Inst::kIdSrsra_v, R, false, true, false }, { "ursra", a64::Inst::kIdUrsra_v, R, false, true, false }, { "sri", a64::Inst::kIdSri_v, R, false, true, false },
    { "shrn", a64::Inst::kIdShrn_v, N, false, false, false }, { "shrn2", a64::Inst::kIdShrn2_v, N, false, false, true },
    { "rshrn", a64::Inst::kIdRshrn_v, N, false, false, false }, { "rshrn2", a64::Inst::kIdRshrn2_v, N, false, false, true },
    { "sqshrn", a64::Inst::kIdSqshrn_v, N, true, false, false }, { "sqshrn2", a64::Inst::kIdSqshrn2_v, N, false, false, true },
    { "sqrshrn", a64::Inst::kIdSqrshrn_v, N, true, false, false }, { "sqrshrn2", a64::Inst::kIdSqrshrn2_v, N, false, false, true },
    { "sqshrun", a64::Inst::kIdSqshrun_v, N, true, false, false }, { "sqshrun2", a64::Inst::kIdSqshrun2_v, N, false, false, true },
    { "sqrshrun", a64::Inst::kIdSqrshrun_v, N, true, false, false }, { "sqrshrun2", a64::Inst::kIdSqrshrun2_v, N, false, false, true },
    { "uqshrn", a64::Inst::kIdUqshrn_v, N, true, false, false }, { "uqshrn2", a64::Inst::kIdUqshrn2_v, N, false, false, true },
    { "uqrshrn", a64::Inst::kIdUqrshrn_v, N, true, false, false }, { "uqrshrn2", a64::Inst::kIdUqrshrn2_v, N, false, false, true },
    { "sshll", a64::Inst::kIdSshll_v, LL, false, false, false }, { "sshll2", a64::Inst::kIdSshll2_v, LL, false, false, true },
    { "ushll", a64::Inst::kIdUshll_v, LL, false, false, false }, { "ushll2", a64::Inst::kIdUshll2_v, LL, false, false, true },
    { "scvtf", a64::Inst::kIdScvtf_v, F, true, true, false }, { "ucvtf", a64::Inst::kIdUcvtf_v, F, true, true, false },
    { "fcvtzs", a64::Inst::kIdFcvtzs_v, F, true, true, false }, { "fcvtzu", a64::Inst::kIdFcvtzu_v, F, true, true, false },
  };
  std::vector<uint64_t> amounts;
  for (uint64_t n = 0; n <= 66; n++) amounts.push_back(n);
  for (uint64_t n : { 127ull, 128ull, 129ull, 255ull, 256ull, (1ull << 32), (1ull << 32) + 1, (1ull << 32) + 8, (1ull << 32) + 63, (1ull << 63) + 2, ~0ull, ~0ull - 7 }) amounts.push_back(n);
  const uint32_t HB = 0x7Fu << 16;
  for (const M& m : ms) {
    // operand shapes: (dst esize, dst lanes, src esize, src lanes, e = the size the immediate is relative to)
    struct Sh { unsigned de, dl, se, sl, e; };
    std::vector<Sh> shapes;
    if (m.kind == L || m.kind == R || m.kind == F) {
      for (unsigned es : { 8u, 16u, 32u, 64u }) {
        if (m.kind == F && es == 8) continue;
        for (unsigned bits : { 64u, 128u }) { if (es == 64 && bits == 64) continue; shapes.push_back({ es, bits / es, es, bits / es, es }); }
        bool sc = m.kind == F ? true : (m.scalar_all || (m.scalar_d && es == 64));
        if (sc) shapes.push_back({ es, 0, es, 0, es });
      }
    }
    else if (m.kind == N) {
      for (unsigned es : { 8u, 16u, 32u }) {
        shapes.push_back({ es, m.hi ? 128 / es : 64 / es, es * 2, 128 / (es * 2), es });
        if (m.scalar_all) shapes.push_back({ es, 0, es * 2, 0, es });
      }
    }
    else {
      for (unsigned es : { 8u, 16u, 32u }) shapes.push_back({ es * 2, 128 / (es * 2), es, m.hi ? 128 / es : 64 / es, es });
    }
    for (const Sh& sh : shapes) {
      a64::Vec d = vec_of(3, sh.de, sh.dl), s = vec_of(5, sh.se, sh.sl);
      std::string ops = vec_text(3, sh.de, sh.dl) + ", " + vec_text(5, sh.se, sh.sl);
      std::string kname = fmtstr("%s:%s", m.name, (vec_text(0, sh.de, sh.dl).substr(sh.dl ? 3 : 0, sh.dl ? 9 : 1)).c_str());
      uint32_t w[4];
      int rn = e.emit(w, m.id, d, s, Imm(1));
      if (rn != 1) { viol("harness:simdshift-ref:" + kname, fmtstr("reference emission %s %s, #1 failed: %s", m.name, ops.c_str(), DebugUtils::error_as_string(e.last))); continue; }
      uint32_t ref = w[0] & ~HB;
      if ((ref & 31) != 3 || ((ref >> 5) & 31) != 5) viol("B:simdshift:" + kname + ":other-bits-changed", fmtstr("%s %s, #1 emitted 0x%08x: Rd/Rn are not 3/5", m.name, ops.c_str(), w[0]));
      bool left = m.kind == L || m.kind == LL;
      for (uint64_t n : amounts) {
        int r = e.emit(w, m.id, d, s, Imm(n));
        bool exp = left ? n < sh.e : (n >= 1 && n <= sh.e);
        evals++;
        if (n <= sh.e + 2) nontrivial++;
        if (r == 1) accepted++; else refused++;
        std::string key = "B:simdshift:" + kname + ":";
        std::string txt = fmtstr("%s %s, #%llu", m.name, ops.c_str(), (unsigned long long)n);
        if ((r == 1) != exp) {
          viol(key + (r == 1 ? "accepts-unencodable" : "refuses-encodable"), fmtstr("%s: assembler %s (%s, word 0x%08x) but the %s amount of a %u-bit element is %s", txt.c_str(), r == 1 ? "accepted" : "refused",
               DebugUtils::error_as_string(e.last), r == 1 ? w[0] : 0, left ? "left shift" : m.kind == F ? "#fbits" : "right shift", sh.e, left ? fmtstr("0..%u", sh.e - 1).c_str() : fmtstr("1..%u", sh.e).c_str()));
          continue;
        }
        if (r != 1) continue;
        unsigned hb = (w[0] >> 16) & 0x7F;
        unsigned want = left ? sh.e + unsigned(n) : 2 * sh.e - unsigned(n);
        if (hb != want) viol(key + "wrong-immediate", fmtstr("%s emitted 0x%08x: immh:immb = %u, wanted %u (%s)", txt.c_str(), w[0], hb, want, left ? "esize + shift" : "2*esize - shift"));
        if ((w[0] & ~HB) != ref) viol(key + "other-bits-changed", fmtstr("%s emitted 0x%08x: bits outside immh:immb differ from the same instruction with #1 (0x%08x)", txt.c_str(), w[0], ref | (w[0] & HB)));
        if ((rng.next() & 0x3F) == 0) xs.add(txt, r, w);
      }
    }
  }
  // fixed-point conversions between a general purpose and an FP register: scale = 64 - fbits, fbits in 1..register size
  struct G { const char* name; InstId id; bool to_fp; };
  const G gs[] = { { "scvtf", a64::Inst::kIdScvtf_v, true }, { "ucvtf", a64::Inst::kIdUcvtf_v, true }, { "fcvtzs", a64::Inst::kIdFcvtzs_v, false }, { "fcvtzu", a64::Inst::kIdFcvtzu_v, false } };
  for (const G& g : gs)
    for (unsigned W : { 32u, 64u })
      for (unsigned fe : { 16u, 32u, 64u }) {
        a64::Gp gp = W == 64 ? a64::Gp(a64::x5) : a64::Gp(a64::w5);
        a64::Vec fp = vec_of(3, fe, 0);
        std::string ops = g.to_fp ? fmtstr("%s, %c5", vec_text(3, fe, 0).c_str(), W == 64 ? 'x' : 'w') : fmtstr("%c5, %s", W == 64 ? 'x' : 'w', vec_text(3, fe, 0).c_str());
        std::string kname = fmtstr("%s:%c,%c", g.name, g.to_fp ? vec_text(3, fe, 0)[0] : (W == 64 ? 'x' : 'w'), g.to_fp ? (W == 64 ? 'x' : 'w') : vec_text(3, fe, 0)[0]);
        uint32_t w[4];
        int rn = g.to_fp ? e.emit(w, g.id, fp, gp, Imm(1)) : e.emit(w, g.id, gp, fp, Imm(1));
        if (rn != 1) { viol("harness:simdshift-ref:" + kname, fmtstr("reference emission %s %s, #1 failed: %s", g.name, ops.c_str(), DebugUtils::error_as_string(e.last))); continue; }
        const uint32_t SC = 0x3Fu << 10;
        uint32_t ref = w[0] & ~SC;
        for (uint64_t n : amounts) {
          int r = g.to_fp ? e.emit(w, g.id, fp, gp, Imm(n)) : e.emit(w, g.id, gp, fp, Imm(n));
          bool exp = n >= 1 && n <= W;
          evals++;
          if (n <= W + 2) nontrivial++;
          if (r == 1) accepted++; else refused++;
          std::string key = "B:simdshift:" + kname + ":";
          std::string txt = fmtstr("%s %s, #%llu", g.name, ops.c_str(), (unsigned long long)n);
          if ((r == 1) != exp) {
            viol(key + (r == 1 ? "accepts-unencodable" : "refuses-encodable"), fmtstr("%s: assembler %s (%s, word 0x%08x) but #fbits of a %u-bit general purpose register is 1..%u", txt.c_str(),
                 r == 1 ? "accepted" : "refused", DebugUtils::error_as_string(e.last), r == 1 ? w[0] : 0, W, W));
            continue;
          }
          if (r != 1) continue;
          unsigned scale = (w[0] >> 10) & 0x3F;
          if (scale != 64 - unsigned(n)) viol(key + "wrong-immediate", fmtstr("%s emitted 0x%08x: scale = %u, wanted %u (64 - fbits)", txt.c_str(), w[0], scale, 64 - unsigned(n)));
          if ((w[0] & ~SC) != ref) viol(key + "other-bits-changed", fmtstr("%s emitted 0x%08x: bits outside scale differ from the same instruction with #1", txt.c_str(), w[0]));
          if ((rng.next() & 0x1F) == 0) xs.add(txt, r, w);
        }
      }
  printf("{\"mode\":\"simdshift\",\"evaluations\":%llu,\"nontrivial\":%llu,\"accepted\":%llu,\"refused\":%llu,\"xsamples\":[%s],\"violations\":%s}\n",
         (unsigned long long)evals, (unsigned long long)nontrivial, (unsigned long long)accepted, (unsigned long long)refused, xs.js.c_str(), viol_json().c_str());
  return 0;
}

// ---- the assembler's own displacement path (EmitOp_DispImm: bound label / known base address) ---------------------------
static int mode_dispimm(const Args& args) {
  unsigned only = unsigned(args.u64("kind", 99));
  const uint64_t kBase = 1ull << 40;
  CodeHolder code;
  code.init(Environment(Arch::kAArch64), kBase);
  a64::Assembler a(&code);
  Label L0 = a.new_label();
  a.bind(L0);                                   // offset 0: a bound label for the `Mem(label, disp)` route
  Rng rng(args.u64("seed", 1));
  uint64_t evals = 0, nontrivial = 0, accepted = 0, refused = 0;
  enum { T_IMM26, T_IMM19, T_IMM14, T_ADR, T_ADRP };
  struct K { const char* name; int t; int route; };     // route 0: Imm(absolute target), 1: Mem(bound label, disp)
  const K ks[] = { { "b", T_IMM26, 0 }, { "bl", T_IMM26, 0 }, { "b.ne", T_IMM19, 0 }, { "cbz", T_IMM19, 0 }, { "cbnz-w", T_IMM19, 0 }, { "tbz", T_IMM14, 0 }, { "tbnz-w", T_IMM14, 0 },
                   { "adr", T_ADR, 0 }, { "adrp", T_ADRP, 0 }, { "ldr-w-label", T_IMM19, 1 }, { "ldr-x-label", T_IMM19, 1 }, { "ldr-q-label", T_IMM19, 1 }, { "ldrsw-label", T_IMM19, 1 },
                   { "prfm-label", T_IMM19, 1 } };
  auto emit = [&](unsigned ki, int64_t v, uint32_t* w) -> bool {
    a.set_offset(0);
    uint64_t tgt = kBase + uint64_t(v);
    Error err;
    switch (ki) {
      case 0: err = a.b(Imm(tgt)); break;
      case 1: err = a.bl(Imm(tgt)); break;
      case 2: err = a.b_ne(Imm(tgt)); break;
      case 3: err = a.cbz(a64::x3, Imm(tgt)); break;
      case 4: err = a.cbnz(a64::w3, Imm(tgt)); break;
      case 5: err = a.tbz(a64::x3, 37, Imm(tgt)); break;
      case 6: err = a.tbnz(a64::w3, 5, Imm(tgt)); break;
      case 7: err = a.adr(a64::x3, Imm(tgt)); break;
      case 8: err = a.adrp(a64::x3, Imm(tgt)); break;
      case 9: err = a.ldr(a64::w3, a64::ptr(L0, int32_t(v))); break;
      case 10: err = a.ldr(a64::x3, a64::ptr(L0, int32_t(v))); break;
      case 11: err = a.ldr(a64::q3, a64::ptr(L0, int32_t(v))); break;
      case 12: err = a.ldrsw(a64::x3, a64::ptr(L0, int32_t(v))); break;
      default: err = a.prfm(Imm(1), a64::ptr(L0, int32_t(v))); break;
    }
    if (err != Error::kOk) return false;
    memcpy(w, a.buffer_data(), 4);
    return true;
  };
  for (unsigned ki = 0; ki < sizeof(ks) / sizeof(ks[0]); ki++) {
    if (only != 99 && only != ki) continue;
    const K& k = ks[ki];
    unsigned bits = k.t == T_IMM26 ? 26 : k.t == T_IMM19 ? 19 : k.t == T_IMM14 ? 14 : 21;
    unsigned d = k.t == T_ADR ? 0 : k.t == T_ADRP ? 12 : 2;
    int64_t step = int64_t(1) << d, lo = -(int64_t(1) << (bits - 1)), hi = (int64_t(1) << (bits - 1)) - 1;
    uint32_t fmask = k.t == T_IMM26 ? 0x03FFFFFFu : k.t == T_IMM19 ? (0x7FFFFu << 5) : k.t == T_IMM14 ? (0x3FFFu << 5) : ((3u << 29) | (0x7FFFFu << 5));
    uint32_t w = 0;
    if (!emit(ki, 0, &w)) { viol(std::string("harness:dispimm-ref:") + k.name, "reference emission with displacement 0 failed"); continue; }
    uint32_t ref = w;
    if (ref & fmask) viol(std::string("B:dispimm:") + k.name + ":other-bits-changed", fmtstr("%s with displacement 0 emitted 0x%08x: the displacement field is not zero", k.name, w));
    auto one = [&](int64_t v) {
      if (k.route == 1 && (v > INT32_MAX || v < INT32_MIN)) return;
      bool ok = emit(ki, v, &w);
      bool aligned = (uint64_t(v) & uint64_t(step - 1)) == 0;
      int64_t q = v >> d;
      bool exp = aligned && q >= lo && q <= hi;
      evals++;
      if (v && (exp || (q >= lo - BAND && q <= hi + BAND))) nontrivial++;
      if (ok) accepted++; else refused++;
      std::string key = std::string("B:dispimm:") + k.name + ":";
      if (ok != exp) { viol(key + (ok ? "accepts-unrepresentable" : "refuses-representable"), fmtstr("%s to pc%+lld: assembler %s, the %u-bit field (x%lld) %s hold it", k.name, (long long)v, ok ? "accepted" : "refused",
                            bits, (long long)step, exp ? "can" : "cannot")); return; }
      if (!ok) return;
      int64_t back;
      if (k.t == T_ADR || k.t == T_ADRP) back = sext((uint64_t((w >> 5) & 0x7FFFF) << 2) | ((w >> 29) & 3), 21) * step;
      else if (k.t == T_IMM26) back = sext(w & 0x03FFFFFF, 26) * step;
      else if (k.t == T_IMM19) back = sext((w >> 5) & 0x7FFFF, 19) * step;
      else back = sext((w >> 5) & 0x3FFF, 14) * step;
      if (back != v) viol(key + "field-decodes-to-other-value", fmtstr("%s to pc%+lld emitted 0x%08x whose field decodes to %+lld", k.name, (long long)v, w, (long long)back));
      if ((w ^ ref) & ~fmask) viol(key + "other-bits-changed", fmtstr("%s to pc%+lld emitted 0x%08x: bits outside the field differ from displacement 0 (0x%08x)", k.name, (long long)v, w, ref));
    };
    bool exhaustive = bits <= 21 || args.u64("exh26", 0) != 0;
    if (exhaustive) {
      int64_t part = int64_t(args.u64("part", 0)), parts = int64_t(args.u64("parts", 1));
      int64_t q0 = lo - BAND, total = (hi + BAND) - q0 + 1;
      for (int64_t q = q0 + total * part / parts; q < q0 + total * (part + 1) / parts; q++) {
        one(q * step);
        if (d == 2 && (q & 63) == 0) { one(q * step + 1); one(q * step + 2); one(q * step + 3); }
        if (d == 12 && (q & 63) == 0) { one(q * step + 1); one(q * step + 2048); one(q * step + 4095); one(q * step + 4); }
      }
    }
    else {
      for (int side = 0; side < 2; side++) for (int64_t kk = -BAND; kk <= BAND; kk++) { int64_t q = (side ? hi : lo) + kk; one(q * step); one(q * step + 1); one(q * step + 2); }
      for (int64_t q = -BAND; q <= BAND; q++) one(q * step);
      for (int i = 0; i < 400000; i++) { int64_t q = lo + int64_t(rng.below(uint64_t(hi - lo + 1))); one(q * step); if ((i & 15) == 0) one(q * step + int64_t(rng.below(uint64_t(step)))); }
    }
    for (int b = 20; b < 63; b++) for (int sgn = -1; sgn <= 1; sgn += 2) { one(sgn * (int64_t(1) << b)); one(sgn * (int64_t(1) << b) + step); }
  }
  printf("{\"mode\":\"dispimm\",\"evaluations\":%llu,\"nontrivial\":%llu,\"accepted\":%llu,\"refused\":%llu,\"xsamples\":[],\"violations\":%s}\n",
         (unsigned long long)evals, (unsigned long long)nontrivial, (unsigned long long)accepted, (unsigned long long)refused, viol_json().c_str());
  return 0;
}

// ---- load / store offset immediates -----------------------------------------------------------------------------------
static int mode_ldstoff(const Args& args) {
  Emu e;
  XSamples xs(unsigned(args.u64("xsamples", 200)));
  Rng rng(args.u64("seed", 1));
  uint64_t evals = 0, nontrivial = 0, accepted = 0, refused = 0;
  struct K { const char* name; InstId id; int regk; unsigned sz; const char* rt; };    // regk 0 w, 1 x, 2..6 b h s d q
  auto reg_of = [](int k, unsigned id) -> Reg { return k == 0 ? Reg(a64::w(id)) : k == 1 ? Reg(a64::x(id)) : k == 2 ? Reg(a64::b(id)) : k == 3 ? Reg(a64::h(id)) : k == 4 ? Reg(a64::s(id)) : k == 5 ? Reg(a64::d(id)) : Reg(a64::q(id)); };
  const K singles[] = {
    { "ldrb", a64::Inst::kIdLdrb, 0, 0, "w3" }, { "strb", a64::Inst::kIdStrb, 0, 0, "w3" }, { "ldrsb", a64::Inst::kIdLdrsb, 1, 0, "x3" }, { "ldrh", a64::Inst::kIdLdrh, 0, 1, "w3" },
    { "strh", a64::Inst::kIdStrh, 0, 1, "w3" }, { "ldrsh", a64::Inst::kIdLdrsh, 0, 1, "w3" }, { "ldrsw", a64::Inst::kIdLdrsw, 1, 2, "x3" },
    { "ldr", a64::Inst::kIdLdr, 0, 2, "w3" }, { "ldr", a64::Inst::kIdLdr, 1, 3, "x3" }, { "str", a64::Inst::kIdStr, 0, 2, "w3" }, { "str", a64::Inst::kIdStr, 1, 3, "x3" },
    { "ldr", a64::Inst::kIdLdr_v, 2, 0, "b3" }, { "ldr", a64::Inst::kIdLdr_v, 3, 1, "h3" }, { "ldr", a64::Inst::kIdLdr_v, 4, 2, "s3" }, { "ldr", a64::Inst::kIdLdr_v, 5, 3, "d3" },
    { "ldr", a64::Inst::kIdLdr_v, 6, 4, "q3" }, { "str", a64::Inst::kIdStr_v, 6, 4, "q3" }, { "str", a64::Inst::kIdStr_v, 3, 1, "h3" },
  };
  std::vector<int64_t> offs;
  for (int64_t v = -600; v <= 33000; v++) offs.push_back(v);
  for (int64_t v = 33000; v <= 70000; v += 7) offs.push_back(v);
  for (int64_t v : { int64_t(65520), int64_t(65536), int64_t(65528), int64_t(INT32_MAX), int64_t(INT32_MIN), int64_t(-4096), int64_t(1) << 20, int64_t(0x7FFFFFF8) }) offs.push_back(v);
  for (const K& k : singles) {
    Reg rt = reg_of(k.regk, 3);
    uint32_t w[4];
    for (int mode = 0; mode < 3; mode++) {           // 0 offset, 1 pre-index, 2 post-index
      for (int64_t v : offs) {
        if (mode && (v < -300 || v > 300) && (v & 0xFFF) != 0) continue;
        a64::Mem m = mode == 0 ? a64::ptr(a64::x5, int32_t(v)) : mode == 1 ? a64::ptr_pre(a64::x5, int32_t(v)) : a64::ptr_post(a64::x5, int32_t(v));
        int n = e.emit(w, k.id, rt, m);
        int64_t scale = int64_t(1) << k.sz;
        bool scaled = mode == 0 && v >= 0 && (v % scale) == 0 && (v / scale) < 4096;
        bool unscaled = v >= -256 && v <= 255;
        bool exp = scaled || unscaled;
        evals++; nontrivial += (v != 0);
        if (n == 1) accepted++; else refused++;
        std::string key = fmtstr("B:ldstoff:%s-%c%s:", k.name, k.rt[0], mode == 0 ? "" : mode == 1 ? "-pre" : "-post");
        std::string txt = mode == 0 ? fmtstr("%s %s, [x5, #%lld]", k.name, k.rt, (long long)v) : mode == 1 ? fmtstr("%s %s, [x5, #%lld]!", k.name, k.rt, (long long)v) : fmtstr("%s %s, [x5], #%lld", k.name, k.rt, (long long)v);
        if ((n == 1) != exp) {
          viol(key + (n == 1 ? "accepts-unencodable" : "refuses-encodable"), fmtstr("%s: assembler %s (%s, word 0x%08x); encodable offsets are %s-256..255", txt.c_str(), n == 1 ? "accepted" : "refused",
               DebugUtils::error_as_string(e.last), n == 1 ? w[0] : 0, mode == 0 ? fmtstr("multiples of %lld in 0..%lld and ", (long long)scale, (long long)(4095 * scale)).c_str() : ""));
          continue;
        }
        if (n != 1) continue;
        bool is_scaled_form = ((w[0] >> 24) & 3) == 1;            // size 111 V 01 opc imm12 (unsigned offset) vs size 111 V 00 opc 0 imm9 xx
        int64_t back; bool shape_ok;
        if (is_scaled_form) { back = int64_t((w[0] >> 10) & 0xFFF) * scale; shape_ok = mode == 0; }
        else {
          back = sext((w[0] >> 12) & 0x1FF, 9);
          unsigned idx = (w[0] >> 10) & 3;
          shape_ok = ((w[0] >> 21) & 1) == 0 && idx == (mode == 0 ? 0u : mode == 1 ? 3u : 1u);
        }
        if (((w[0] >> 27) & 7) != 7 || (w[0] & 31) != 3 || ((w[0] >> 5) & 31) != 5) shape_ok = false;
        if (!shape_ok || back != v) viol(key + "wrong-immediate", fmtstr("%s emitted 0x%08x: %s form whose offset field decodes to %lld", txt.c_str(), w[0], is_scaled_form ? "unsigned-offset" : "unscaled/indexed", (long long)back));
        if ((rng.next() & 0xFFF) < 2 || (v > 32000 && v < 32800 && (rng.next() & 63) == 0)) xs.add(txt, n, w);
      }
    }
  }
  // pairs: simm7 * size, all three addressing modes
  struct P { const char* name; InstId id; int regk; unsigned sz; const char* r1; const char* r2; };
  const P pairs[] = { { "ldp", a64::Inst::kIdLdp, 0, 2, "w3", "w4" }, { "ldp", a64::Inst::kIdLdp, 1, 3, "x3", "x4" }, { "stp", a64::Inst::kIdStp, 1, 3, "x3", "x4" }, { "ldpsw", a64::Inst::kIdLdpsw, 1, 2, "x3", "x4" },
                      { "ldp", a64::Inst::kIdLdp_v, 4, 2, "s3", "s4" }, { "ldp", a64::Inst::kIdLdp_v, 5, 3, "d3", "d4" }, { "ldp", a64::Inst::kIdLdp_v, 6, 4, "q3", "q4" }, { "stp", a64::Inst::kIdStp_v, 6, 4, "q3", "q4" },
                      { "ldnp", a64::Inst::kIdLdnp, 1, 3, "x3", "x4" }, { "stnp", a64::Inst::kIdStnp_v, 6, 4, "q3", "q4" } };
  for (const P& p : pairs) {
    Reg r1 = reg_of(p.regk, 3), r2 = reg_of(p.regk, 4);
    bool np = p.name[2] == 'n';
    for (int mode = 0; mode < (np ? 1 : 3); mode++)
      for (int64_t v = -1300; v <= 1300; v++) {
        a64::Mem m = mode == 0 ? a64::ptr(a64::x5, int32_t(v)) : mode == 1 ? a64::ptr_pre(a64::x5, int32_t(v)) : a64::ptr_post(a64::x5, int32_t(v));
        uint32_t w[4];
        if (mode && v == 0) continue;      // write-back by zero: AsmJit uses the plain form (same meaning) - no verdict
        int n = e.emit(w, p.id, r1, r2, m);
        int64_t scale = int64_t(1) << p.sz;
        bool exp = (v % scale) == 0 && v / scale >= -64 && v / scale <= 63;
        evals++; nontrivial += (v != 0);
        if (n == 1) accepted++; else refused++;
        std::string key = fmtstr("B:ldstoff:%s-%c%s:", p.name, p.r1[0], mode == 0 ? "" : mode == 1 ? "-pre" : "-post");
        std::string txt = mode == 0 ? fmtstr("%s %s, %s, [x5, #%lld]", p.name, p.r1, p.r2, (long long)v) : mode == 1 ? fmtstr("%s %s, %s, [x5, #%lld]!", p.name, p.r1, p.r2, (long long)v) : fmtstr("%s %s, %s, [x5], #%lld", p.name, p.r1, p.r2, (long long)v);
        if ((n == 1) != exp) { viol(key + (n == 1 ? "accepts-unencodable" : "refuses-encodable"), fmtstr("%s: assembler %s; encodable offsets are multiples of %lld in %lld..%lld", txt.c_str(), n == 1 ? "accepted" : "refused", (long long)scale, (long long)(-64 * scale), (long long)(63 * scale))); continue; }
        if (n != 1) continue;
        int64_t back = sext((w[0] >> 15) & 0x7F, 7) * scale;
        unsigned am = (w[0] >> 23) & 7;   // 000 no-allocate, 001 post, 010 offset, 011 pre
        unsigned want_am = np ? 0u : mode == 0 ? 2u : mode == 1 ? 3u : 1u;
        if (back != v || am != want_am || (w[0] & 31) != 3 || ((w[0] >> 10) & 31) != 4 || ((w[0] >> 5) & 31) != 5)
          viol(key + "wrong-immediate", fmtstr("%s emitted 0x%08x: imm7 decodes to %lld, addressing mode bits %u (wanted %u)", txt.c_str(), w[0], (long long)back, am, want_am));
        if ((rng.next() & 0x3FF) < 2) xs.add(txt, n, w);
      }
  }
  // ldraa / ldrab: simm10 * 8
  for (InstId id : { InstId(a64::Inst::kIdLdraa), InstId(a64::Inst::kIdLdrab) })
    for (int mode = 0; mode < 2; mode++)
      for (int64_t v = -4200; v <= 4200; v++) {
        a64::Mem m = mode == 0 ? a64::ptr(a64::x5, int32_t(v)) : a64::ptr_pre(a64::x5, int32_t(v));
        uint32_t w[4];
        int n = e.emit(w, id, a64::x3, m);
        bool exp = (v % 8) == 0 && v / 8 >= -512 && v / 8 <= 511;
        evals++; nontrivial += (v != 0);
        if (n == 1) accepted++; else refused++;
        std::string key = fmtstr("B:ldstoff:%s%s:", id == a64::Inst::kIdLdraa ? "ldraa" : "ldrab", mode ? "-pre" : "");
        if ((n == 1) != exp) { viol(key + (n == 1 ? "accepts-unencodable" : "refuses-encodable"), fmtstr("[x5, #%lld]%s: assembler %s; encodable offsets are multiples of 8 in -4096..4088", (long long)v, mode ? "!" : "", n == 1 ? "accepted" : "refused")); continue; }
        if (n != 1) continue;
        int64_t back = sext((((w[0] >> 22) & 1) << 9) | ((w[0] >> 12) & 0x1FF), 10) * 8;
        if (back != v || ((w[0] >> 11) & 1) != unsigned(mode)) viol(key + "wrong-immediate", fmtstr("[x5, #%lld]%s emitted 0x%08x: S:imm9 decodes to %lld, W=%u", (long long)v, mode ? "!" : "", w[0], (long long)back, (w[0] >> 11) & 1));
      }
  printf("{\"mode\":\"ldstoff\",\"evaluations\":%llu,\"nontrivial\":%llu,\"accepted\":%llu,\"refused\":%llu,\"xsamples\":[%s],\"violations\":%s}\n",
         (unsigned long long)evals, (unsigned long long)nontrivial, (unsigned long long)accepted, (unsigned long long)refused, xs.js.c_str(), viol_json().c_str());
  return 0;
}

int main(int argc, char** argv) {
  Args args(argc, argv);
  std::string mode = args.str("mode", "");
  if (mode == "fmt") return mode_fmt(args);
  if (mode == "split") return mode_split(args);
  if (mode == "collect") return mode_collect(args);
  if (mode == "logical") return mode_logical(args);
  if (mode == "fp8") return mode_fp8(args);
  if (mode == "addsub") return mode_addsub(args);
  if (mode == "movwide") return mode_movwide(args);
  if (mode == "bitfield") return mode_bitfield(args);
  if (mode == "modimm") return mode_modimm(args);
  if (mode == "simdshift") return mode_simdshift(args);
  if (mode == "dispimm") return mode_dispimm(args);
  if (mode == "ldstoff") return mode_ldstoff(args);
  fprintf(stderr, "unknown --mode\n");
  return 3;
}
