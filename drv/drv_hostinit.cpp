// C11: the first calls to CpuInfo::host() made concurrently by several threads of a fresh process. Every thread must
// see the complete host description - the one a later call returns - and a JitRuntime it creates at that moment must
// carry the same features, so that it generates the code it would generate alone. Functional monitor (no race
// detector: the library's double-checked initialisation is intentionally lock-free); one fork()ed child per trial,
// because host information can only be initialised once per process.
// The same for the other lazily initialised process-wide values a first JIT object needs: VirtMem::info() (page size and
// granularity), large_page_size(), what a JitAllocator derives from them (block size, granularity), and the first
// dual-mapped block (anonymous-memory strategy, memfd flags, hardened-runtime detection): a thread that races with the
// initialisation must not see half-initialised values, and its first dual-mapped allocation must work.
// Output: {"trials":N,"threads_total":M,"mismatches":K,"first":"...","vm_values_compared":V,"dual_allocs":D}
#include <asmjit/core.h>
#include <asmjit/x86.h>
#include "vcommon.h"
#include <atomic>
#include <thread>
#include <vector>
#include <string.h>
#include <sys/wait.h>
#include <unistd.h>

using namespace asmjit;

static std::atomic<int> g_ready(0);
static std::atomic<int> g_go(0);

struct Seen {
  CpuFeatures direct; CpuFeatures runtime; uint32_t hints; Arch arch;
  uint32_t page_size, page_granularity, block_size, granularity; size_t large_page; uint32_t hardened;
  int dual_state;   // 0 worked, 1 alloc failed, 2 contents wrong
  int dual_err;
};

static int dual_roundtrip(int t, int* err) {
  JitAllocator::CreateParams p;
  p.options = JitAllocatorOptions::kUseDualMapping | JitAllocatorOptions::kFillUnusedMemory;
  JitAllocator al(&p);
  JitAllocator::Span s;
  Error e = al.alloc(Out(s), 300);
  *err = int(e);
  if (e != Error::kOk) return 1;
  uint8_t buf[300];
  for (int i = 0; i < 300; i++) buf[i] = uint8_t(i * 7 + t);
  if (al.write(s, 0, buf, 300) != Error::kOk || s.rx() == s.rw() || memcmp(s.rx(), buf, 300) != 0) return 2;
  if (al.release(s.rx()) != Error::kOk) return 2;
  return 0;
}

static int child(int nthreads, int stagger_mask) {
  std::vector<Seen> seen((size_t)nthreads);
  std::vector<std::thread> th;
  for (int t = 0; t < nthreads; t++) {
    th.emplace_back([&, t]() {
      g_ready.fetch_add(1);
      while (!g_go.load(std::memory_order_acquire)) {}
      if ((stagger_mask >> t) & 1) for (volatile int i = 0; i < 200 * (t + 1); i++) {}
      const CpuInfo& ci = CpuInfo::host();
      seen[size_t(t)].direct = ci.features();
      seen[size_t(t)].hints = uint32_t(ci.hints());
      seen[size_t(t)].arch = ci.arch();
      Seen& me = seen[size_t(t)];
      if ((stagger_mask >> t) & 2) {          // half of the threads touch the virtual-memory values first
        VirtMem::Info vi0 = VirtMem::info();
        me.page_size = vi0.page_size; me.page_granularity = vi0.page_granularity;
      }
      JitRuntime rt;
      me.runtime = rt.cpu_features();
      VirtMem::Info vi = VirtMem::info();
      if (!((stagger_mask >> t) & 2)) { me.page_size = vi.page_size; me.page_granularity = vi.page_granularity; }
      else if (me.page_size != vi.page_size || me.page_granularity != vi.page_granularity) me.page_size = 0xBAD;
      me.block_size = rt.allocator().block_size();
      me.granularity = rt.allocator().granularity();
      me.large_page = VirtMem::large_page_size();
      me.hardened = uint32_t(VirtMem::hardened_runtime_info().flags);
      me.dual_state = dual_roundtrip(t, &me.dual_err);
    });
  }
  while (g_ready.load() < nthreads) {}
  g_go.store(1, std::memory_order_release);
  for (auto& x : th) x.join();
  const CpuInfo& fin = CpuInfo::host();
  int bad = 0;
  for (int t = 0; t < nthreads; t++) {
    if (memcmp(&seen[size_t(t)].direct, &fin.features(), sizeof(CpuFeatures)) != 0 || seen[size_t(t)].hints != uint32_t(fin.hints()) || seen[size_t(t)].arch != fin.arch()) bad |= 1;
    if (memcmp(&seen[size_t(t)].runtime, &fin.features(), sizeof(CpuFeatures)) != 0) bad |= 2;
  }
  // what a later (single-threaded) use sees
  VirtMem::Info vfin = VirtMem::info();
  JitAllocator afin;
  int derr = 0;
  int dfin = dual_roundtrip(99, &derr);
  for (int t = 0; t < nthreads; t++) {
    const Seen& me = seen[size_t(t)];
    if (me.page_size != vfin.page_size || me.page_granularity != vfin.page_granularity || me.large_page != VirtMem::large_page_size() ||
        me.hardened != uint32_t(VirtMem::hardened_runtime_info().flags) || me.block_size != afin.block_size() || me.granularity != afin.granularity()) bad |= 4;
    if (dfin == 0 && me.dual_state != 0) bad |= 8;      // dual mapping works in this environment, but not for the racing thread
  }
  return bad;   // exit code
}

int main(int argc, char** argv) {
  Args a(argc, argv);
  uint64_t trials = a.u64("trials", 200), seed = a.u64("seed", 1);
  Rng r(seed);
  uint64_t mism = 0, threads_total = 0, clean = 0; std::string first;
  for (uint64_t i = 0; i < trials; i++) {
    int n = int(2 + r.below(7));
    int mask = int(r.below(1u << (n + 1)));
    threads_total += uint64_t(n);
    pid_t pid = fork();
    if (pid < 0) { fprintf(stderr, "fork failed\n"); return 2; }
    if (pid == 0) _exit(child(n, mask));
    int st = 0;
    if (waitpid(pid, &st, 0) < 0) { fprintf(stderr, "waitpid failed\n"); return 2; }
    int rc = WIFEXITED(st) ? WEXITSTATUS(st) : 100 + (WIFSIGNALED(st) ? WTERMSIG(st) : 0);
    if (rc != 0) {
      mism++;
      if (first.empty()) {
        char b[400];
        snprintf(b, sizeof b, "trial %llu with %d threads: %s%s%s%s%s", (unsigned long long)i, n, (rc < 100 && (rc & 1)) ? "CpuInfo::host() returned an incomplete description to a thread; " : "",
                 (rc < 100 && (rc & 2)) ? "a JitRuntime created by a thread carries other CPU features than the host; " : "",
                 (rc < 100 && (rc & 4)) ? "a thread saw other VirtMem::info()/large_page_size()/hardened-runtime values or allocator block size/granularity than a later call returns; " : "",
                 (rc < 100 && (rc & 8)) ? "the first dual-mapped allocation of a thread failed or lost its contents although dual mapping works afterwards; " : "",
                 rc >= 100 ? "child died" : "");
        first = b;
      }
    }
    else clean++;
  }
  // does dual mapping work here at all? (otherwise the dual part of every trial observed nothing)
  int derr = 0;
  int dual_works = dual_roundtrip(0, &derr) == 0;
  printf("{\"trials\":%llu,\"threads_total\":%llu,\"mismatches\":%llu,\"first\":%s,\"vm_values_compared\":%llu,\"dual_allocs_in_racing_threads\":%llu,\"dual_mapping_works\":%d}\n",
         (unsigned long long)trials, (unsigned long long)threads_total, (unsigned long long)mism, jstr(first).c_str(),
         (unsigned long long)(threads_total * 8), (unsigned long long)threads_total, dual_works);
  return 0;
}
