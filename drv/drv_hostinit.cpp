// C11: the first calls to CpuInfo::host() made concurrently by several threads of a fresh process. Every thread must
// see the complete host description - the one a later call returns - and a JitRuntime it creates at that moment must
// carry the same features, so that it generates the code it would generate alone. Functional monitor (no race
// detector: the library's double-checked initialisation is intentionally lock-free); one fork()ed child per trial,
// because host information can only be initialised once per process.
// Output: {"trials":N,"threads_total":M,"mismatches":K,"first":"..."}
#include <asmjit/core.h>
#include <asmjit/x86.h>
#include "vcommon.h"
#include <atomic>
#include <thread>
#include <vector>
#include <string.h>
#include <sys/wait.h>
#include <unistd.h>

using namespace asmjit;

static std::atomic<int> g_ready(0);
static std::atomic<int> g_go(0);

struct Seen { CpuFeatures direct; CpuFeatures runtime; uint32_t hints; Arch arch; };

static int child(int nthreads, int stagger_mask) {
  std::vector<Seen> seen((size_t)nthreads);
  std::vector<std::thread> th;
  for (int t = 0; t < nthreads; t++) {
    th.emplace_back([&, t]() {
      g_ready.fetch_add(1);
      while (!g_go.load(std::memory_order_acquire)) {}
      if ((stagger_mask >> t) & 1) for (volatile int i = 0; i < 200 * (t + 1); i++) {}
      const CpuInfo& ci = CpuInfo::host();
      seen[size_t(t)].direct = ci.features();
      seen[size_t(t)].hints = uint32_t(ci.hints());
      seen[size_t(t)].arch = ci.arch();
      JitRuntime rt;
      seen[size_t(t)].runtime = rt.cpu_features();
    });
  }
  while (g_ready.load() < nthreads) {}
  g_go.store(1, std::memory_order_release);
  for (auto& x : th) x.join();
  const CpuInfo& fin = CpuInfo::host();
  int bad = 0;
  for (int t = 0; t < nthreads; t++) {
    if (memcmp(&seen[size_t(t)].direct, &fin.features(), sizeof(CpuFeatures)) != 0 || seen[size_t(t)].hints != uint32_t(fin.hints()) || seen[size_t(t)].arch != fin.arch()) bad |= 1;
    if (memcmp(&seen[size_t(t)].runtime, &fin.features(), sizeof(CpuFeatures)) != 0) bad |= 2;
  }
  return bad;   // exit code
}

int main(int argc, char** argv) {
  Args a(argc, argv);
  uint64_t trials = a.u64("trials", 200), seed = a.u64("seed", 1);
  Rng r(seed);
  uint64_t mism = 0, threads_total = 0; std::string first;
  for (uint64_t i = 0; i < trials; i++) {
    int n = int(2 + r.below(7));
    int mask = int(r.below(1u << n));
    threads_total += uint64_t(n);
    pid_t pid = fork();
    if (pid < 0) { fprintf(stderr, "fork failed\n"); return 2; }
    if (pid == 0) _exit(child(n, mask));
    int st = 0;
    if (waitpid(pid, &st, 0) < 0) { fprintf(stderr, "waitpid failed\n"); return 2; }
    int rc = WIFEXITED(st) ? WEXITSTATUS(st) : 100 + (WIFSIGNALED(st) ? WTERMSIG(st) : 0);
    if (rc != 0) {
      mism++;
      if (first.empty()) {
        char b[200];
        snprintf(b, sizeof b, "trial %llu with %d threads: %s%s%s", (unsigned long long)i, n, (rc & 1) ? "CpuInfo::host() returned an incomplete description to a thread; " : "",
                 (rc & 2) ? "a JitRuntime created by a thread carries other CPU features than the host; " : "", rc >= 100 ? "child died" : "");
        first = b;
      }
    }
  }
  printf("{\"trials\":%llu,\"threads_total\":%llu,\"mismatches\":%llu,\"first\":%s}\n", (unsigned long long)trials, (unsigned long long)threads_total, (unsigned long long)mism, jstr(first).c_str());
  return 0;
}
